"""C13 - slot content handed to Component.render(slots=...) is HTML-escaped exactly once: Component._normalize_slot_fills and the
two closures it builds.

From the property ("slot content handed to Component.render as a plain string or returned by a slot function is HTML-escaped
exactly once unless it is marked safe or escape_slots_content=False"), for every entry name -> content of `fills`:
  * None                     -> no slot of that name;
  * text (str / SafeString)  -> a slot whose body is ONE text node holding conditional_escape(text) (a SafeString passes unchanged,
                                 anything else is escaped once) - or the text itself when escaping is off;
  * a function               -> a slot marked `escaped` whose function is the ESCAPING WRAPPER of that function: it calls the
                                 function with the same three arguments and returns conditional_escape(result) (the result itself
                                 when escaping is off) - unit content_fn;
  * a Slot marked `escaped`  -> a slot with THAT slot's own function, never wrapped again (escaped once, not twice);
  * a Slot not yet escaped   -> as a function;
and nothing else: the result has exactly the names whose content is not None.
A content value is a record (kind, text, function id, and for Slot instances its fields); function values are opaque ids; the
wrapper closure `content_fn` is identified BY NAME when it is stored in a Slot (syntactic link) and has its own contract.
"""
import z3

import contracts.c13 as c13
from pyvc import ops
from pyvc.contracts import REG, Any_, Bool, Dict, Int, Loop, Obj, Opt, Seq, Str, Tup
from pyvc.interp import Closure, EngineError, ExcVal, PyRaise
from pyvc.types import NONE, Conc, TAny, TBool, TInt, TOpt, TStr, Val

P = "C13"
COMP = "django_components.component"
S, I, B = z3.StringSort(), z3.IntSort(), z3.BoolSort()
PV = TAny.sort()
OS = TOpt(TStr)
FN = Obj("SlotFunction")
TEXTNODE = Tup(TStr, tag="TextNodeObj", fields=["s"])
NL = Seq(TEXTNODE)
ONL = TOpt(NL)
# kind: 1 text, 2 plain callable, 3 Slot instance
CONTENT = Tup(TInt, TAny, FN, TBool, OS, OS, ONL, FN, tag="SlotContent", fields=["kind", "text", "fn", "escaped", "slot_name", "component_name", "nodelist", "content_func"])
OC = TOpt(CONTENT)
FILLS = Dict(Str, OC, ordered=True)
SLOT = Tup(FN, OS, OS, ONL, TBool, tag="SlotObj", fields=["content_func", "component_name", "slot_name", "nodelist", "escaped"])
NORM = Dict(Str, SLOT, ordered=True)
SELF = Obj("ComponentSelf")


def _c(v):
    """the content record behind a value typed SlotContent or Optional[SlotContent] (after the `is None` test)"""
    return OC.get(v.t) if v.ty == OC else v.t


def self_name(s):
    return ops.uf("component_self_name", SELF.sort(), S)(s)


def wrapper(f, escape):
    """the function object `content_fn` closed over (content = f, escape_content = escape)"""
    return ops.uf("escaping_wrapper_of", FN.sort(), B, FN.sort())(f, escape)


def as_function(c):
    """a content value used as a callable: the function itself, or Slot.__call__ = its content_func"""
    return z3.If(CONTENT.proj(c, 0) == 3, CONTENT.proj(c, 7), CONTENT.proj(c, 2))


def text_slot_func(nodelist, cname, sname):
    """the render function _nodelist_to_slot_render_func builds for a nodelist (its own contract: C03 render_func)"""
    return ops.uf("render_func_of_nodelist", NL.sort(), S, S, FN.sort())(nodelist, cname, sname)


REG.stub(("getattr", "ComponentSelf", "name"), lambda run, obj, node: Val(TStr, self_name(obj.t)))
REG.stub(("isinstance", "Slot"), lambda run, v: CONTENT.proj(_c(v), 0) == 3)
REG.stub(("isinstance", "str"), lambda run, v: CONTENT.proj(_c(v), 0) == 1 if v.ty in (CONTENT, OC) else (_ for _ in ()).throw(EngineError(f"isinstance(str) on {v.ty}")))
for _k, _f in enumerate(CONTENT.fields):
    if _f in ("escaped", "slot_name", "component_name", "nodelist", "content_func"):
        for _tn in ("SlotContent", OC.name):
            REG.stub(("getattr", _tn, _f), (lambda k: lambda run, obj, node: Val(CONTENT.items[k], CONTENT.proj(_c(obj), k)))(_k))
REG.stub(("coerce", "SlotContent", "PyVal"), lambda run, v, ty: Val(TAny, CONTENT.proj(v.t, 1)))
REG.stub(("coerce", OC.name, "PyVal"), lambda run, v, ty: Val(TAny, CONTENT.proj(OC.get(v.t), 1)))


def _content_pyeq(run, w, v):
    """Python's == on two content values (what a memo keyed by the content would use): text compares by its characters - a
    SafeString equals the plain str with the same characters and hashes alike; functions and Slot objects compare by identity"""
    from pyvc.engine import _memo_equal
    a, b = _c(w), _c(v)
    both = z3.BoolVal(True) if w.ty != OC else z3.And(z3.Not(OC.is_none(w.t)), z3.Not(OC.is_none(v.t)))
    text_eq = z3.And(CONTENT.proj(a, 0) == 1, CONTENT.proj(b, 0) == 1, _memo_equal(run, Val(TAny, CONTENT.proj(a, 1)), Val(TAny, CONTENT.proj(b, 1))))
    return z3.Or(w.t == v.t, z3.And(both, text_eq))


REG.stub(("pyeq", "SlotContent"), _content_pyeq)
REG.stub(("pyeq", OC.name), _content_pyeq)


def _callable(run, args, kwargs, node):
    v = args[0]
    if isinstance(v, Conc):
        return Val(TBool, z3.BoolVal(True))
    return Val(TBool, CONTENT.proj(_c(v), 0) >= 2)


def _text_node(run, args, kwargs, node):
    """TextNode(s): s is the escaped text (a str) or the content itself when escaping is off"""
    v = args[0]
    if isinstance(v, Val) and v.ty is TStr:
        return Val(TEXTNODE, TEXTNODE.mk(v.t))
    return Val(TEXTNODE, TEXTNODE.mk(c13.str_pv(run.coerce(v, TAny).t)))


def _node_list(run, args, kwargs, node):
    return run.coerce(args[0], NL)


def _nodelist_to_slot(run, args, kwargs, node):
    cname, sname = run.coerce(kwargs["component_name"], TStr).t, run.coerce(kwargs["slot_name"], TStr).t
    nl = run.coerce(kwargs["nodelist"], NL).t
    if kwargs["data_var"] is not NONE or kwargs["default_var"] is not NONE:
        raise EngineError("text slot built with aliases")
    return Val(SLOT, SLOT.mk(text_slot_func(nl, cname, sname), OS.some(cname), OS.some(sname), ONL.some(nl), z3.BoolVal(False)))


def _new_slot(run, args, kwargs, node):
    """Slot(content_func=..., component_name=..., slot_name=..., nodelist=..., escaped=...)"""
    cf = kwargs["content_func"]
    if isinstance(cf, Conc) and isinstance(cf.obj, Closure):
        if cf.obj.finfo.node.name != "content_fn":
            raise EngineError(f"Slot built around the unexpected closure {cf.obj.finfo.node.name}")
        fr = run.call_frame
        content = fr.lookup("content")
        esc_flag = fr.lookup("escape_content")
        f = wrapper(as_function(_c(content)), run.truth(esc_flag))
    else:
        f = run.coerce(cf, FN).t
    nl = kwargs["nodelist"]
    nlt = ONL.none() if nl is NONE else run.coerce(nl, ONL).t
    return Val(SLOT, SLOT.mk(f, OS.some(run.coerce(kwargs["component_name"], TStr).t), OS.some(run.coerce(kwargs["slot_name"], TStr).t), nlt,
                             run.truth(kwargs["escaped"])))


def _slot_from_content(c):
    """a Slot instance given as content, returned as it is"""
    return SLOT.mk(CONTENT.proj(c, 7), CONTENT.proj(c, 5), CONTENT.proj(c, 4), CONTENT.proj(c, 6), CONTENT.proj(c, 3))


REG.stub(("coerce", "SlotContent", "SlotObj"), lambda run, v, ty: Val(SLOT, _slot_from_content(v.t)))
REG.stub(("coerce", OC.name, "SlotObj"), lambda run, v, ty: Val(SLOT, _slot_from_content(OC.get(v.t))))


def truthy(o):
    return z3.And(z3.Not(OS.is_none(o)), z3.Length(OS.get(o)) > 0)


def want_func(c, escape):
    """THE PROPERTY: which function the resulting slot runs"""
    kind = CONTENT.proj(c, 0)
    is_slot, escaped = kind == 3, CONTENT.proj(c, 3)
    return z3.If(z3.And(is_slot, escaped), CONTENT.proj(c, 7), wrapper(as_function(c), escape))


def want_text(c, escape):
    """THE PROPERTY: the characters emitted for text content"""
    t = CONTENT.proj(c, 1)
    return z3.If(escape, c13.esc_pv(t), c13.str_pv(t))


def _entry_ok(c, k, slot, content, name, escape):
    kind = CONTENT.proj(content, 0)
    nl = SLOT.proj(slot, 3)
    text_case = z3.And(z3.Not(ONL.is_none(nl)), z3.Length(ONL.get(nl)) == 1, TEXTNODE.proj(ONL.get(nl)[0], 0) == want_text(content, escape),
                       SLOT.proj(slot, 0) == text_slot_func(ONL.get(nl), name, k))
    # a Slot already marked `escaped`: its own function as it is - or the wrapper around it, which changes nothing when the
    # marker is right (conditional_escape leaves the SafeString an escaping wrapper returns unchanged): both are "exactly once"
    already = z3.And(kind == 3, CONTENT.proj(content, 3))
    func_case = z3.And(z3.Or(SLOT.proj(slot, 0) == want_func(content, escape), z3.And(already, SLOT.proj(slot, 0) == wrapper(as_function(content), escape))), SLOT.proj(slot, 4))
    return z3.If(kind == 1, text_case, func_case)


def _has_spec(fills, k, upto):
    j = z3.Const("bv_j", I)
    order = FILLS.order(fills)
    return z3.Exists([j], z3.And(0 <= j, j < upto, j < z3.Length(order), order[j] == k, z3.Not(OC.is_none(z3.Select(FILLS.val(fills), k)))))


def _wf_fills(c):
    """a content value is None, text, a function or a Slot (kind 1..3; text is a str or SafeString); every key of a dict is listed
    in its order (A-PY)"""
    fills = c["fills"].t
    k, j = z3.Const("bv_k", S), z3.Const("bv_j", I)
    v = OC.get(z3.Select(FILLS.val(fills), k))
    return z3.And(
        z3.ForAll([k], z3.Implies(z3.And(z3.Select(FILLS.has(fills), k), z3.Not(OC.is_none(z3.Select(FILLS.val(fills), k)))),
                                  z3.And(CONTENT.proj(v, 0) >= 1, CONTENT.proj(v, 0) <= 3,
                                         z3.Implies(CONTENT.proj(v, 0) == 1, z3.Or(PV.is_StrV(CONTENT.proj(v, 1)), PV.is_SafeV(CONTENT.proj(v, 1))))))),
        z3.ForAll([k], z3.Implies(z3.Select(FILLS.has(fills), k), z3.And(0 <= ops.keypos(FILLS.order(fills), k), ops.keypos(FILLS.order(fills), k) < z3.Length(FILLS.order(fills)),
                                                                          FILLS.order(fills)[ops.keypos(FILLS.order(fills), k)] == k))))


def _inv(c, upto=None, res=None):
    fills = c.old("fills").t
    i = upto if upto is not None else c["_i0"].t
    norm = res if res is not None else c["norm_fills"].t
    k = z3.Const("bv_k", S)
    esc_flag = c.old("escape_content").t
    name = self_name(c.old("self").t)
    return z3.And(
        z3.ForAll([k], z3.Select(NORM.has(norm), k) == _has_spec(fills, k, i)),
        z3.ForAll([k], z3.Implies(z3.Select(NORM.has(norm), k), _entry_ok(c, k, z3.Select(NORM.val(norm), k), OC.get(z3.Select(FILLS.val(fills), k)), name, esc_flag))))


def _post_names(c):
    fills = c.old("fills").t
    k = z3.Const("bv_k", S)
    return z3.ForAll([k], z3.Select(NORM.has(c["result"].t), k) == z3.And(z3.Select(FILLS.has(fills), k), z3.Not(OC.is_none(z3.Select(FILLS.val(fills), k)))))


def _post_entries(c):
    fills = c.old("fills").t
    k = z3.Const("bv_k", S)
    norm = c["result"].t
    return z3.ForAll([k], z3.Implies(z3.Select(NORM.has(norm), k), _entry_ok(c, k, z3.Select(NORM.val(norm), k), OC.get(z3.Select(FILLS.val(fills), k)),
                                                                            self_name(c.old("self").t), c.old("escape_content").t)))


REG.contract(
    f"{COMP}:Component._normalize_slot_fills", prop=P, types={"self": SELF, "fills": FILLS, "escape_content": Bool}, result=NORM,
    calls={"callable": _callable, "TextNode": _text_node, "NodeList": _node_list, "_nodelist_to_slot_render_func": _nodelist_to_slot, "Slot": _new_slot},
    locals={"norm_fills": NORM},
    requires=[_wf_fills], modifies=[], raises={},
    loops={0: Loop(inv=[_inv], variant="len(_seq0) - _i0")},
    ensures={
        "exactly_the_names_whose_content_is_not_None": _post_names,
        "text_escaped_once_unless_safe_or_off_and_functions_wrapped_exactly_once": _post_entries,
    },
)


# ---- the escaping wrapper itself
def _call_content(run, args, kwargs, node):
    """content(ctx, slot_data, slot_ref): the user's slot function; GHOST: what it was called with"""
    n = run.ghost.get("slot_fn_calls")
    run.ghost["slot_fn_calls"] = Val(TInt, (n.t if n is not None else z3.IntVal(0)) + 1)
    run.ghost["slot_fn_args"] = [args[0], args[1], args[2]]
    if run.choose(2, None) == 1:
        raise PyRaise(ExcVal("Any", [], site="slot function (user code)"))
    r = Val(TAny, z3.FreshConst(PV, "slot_function_result"))
    run.ghost["slot_fn_result"] = r
    return r


def _fn_post(c):
    r = c.ghost["slot_fn_result"].t
    a = c.ghost["slot_fn_args"]
    esc_flag = c.run.globals["escape_content"].t
    res = c["result"].t
    return z3.And(c.ghost["slot_fn_calls"].t == 1,
                  a[0].t == c.old("ctx").t, a[1].t == c.old("slot_data").t, a[2].t == c.old("slot_ref").t,
                  z3.If(esc_flag, c13.str_pv(res) == c13.esc_pv(r), res == r))


REG.contract(
    f"{COMP}:Component._normalize_slot_fills.gen_escaped_content_func.content_fn", prop=P,
    types={"ctx": Obj("Context"), "slot_data": Any_, "slot_ref": Any_}, result=Any_,
    globals={"escape_content": Bool, "content": CONTENT}, calls={"content": _call_content},
    modifies=[], raises={"Any": None},
    ensures={"calls_the_slot_function_once_with_the_same_arguments_and_escapes_its_result_once_unless_off": _fn_post},
)


@REG.replay(f"{COMP}:Component._normalize_slot_fills.gen_escaped_content_func.content_fn")
def _replay_content_fn(model, ob):
    return _replay_normalize(model, ob)


@REG.replay(f"{COMP}:Component._normalize_slot_fills")
def _replay_normalize(model, ob):
    """Component.render(slots=...) with text / SafeString / function / Slot content over special characters, twice in one
    process and in both orders of safe and plain text, and through a second normalisation (a Slot passed on to another
    component); the output must hold each content escaped exactly once unless safe or escaping is off"""
    import itertools
    from django.conf import settings
    if not settings.configured:
        from tests.django_test_setup import setup_test_config
        setup_test_config({"autodiscover": False})
    from django.utils.html import escape
    from django.utils.safestring import SafeString, mark_safe
    from django_components import Component, Slot, types  # noqa: F401

    class Inner(Component):
        template: types.django_html = "{% load component_tags %}[{% slot 's' default / %}]"

    class Outer(Component):
        template: types.django_html = "{% load component_tags %}({% slot 's' default / %})"

        def get_context_data(self):
            return {}

    raw = "1 &lt 2 & \"q\" 'r' &"          # special characters that form no element when emitted unescaped
    makers = {
        "plain": lambda: raw, "safe": lambda: mark_safe(raw),
        "fn_plain": lambda: (lambda ctx, data, ref: raw), "fn_safe": lambda: (lambda ctx, data, ref: mark_safe(raw)),
        "slot_fn_plain": lambda: Slot(lambda ctx, data, ref: raw), "slot_fn_safe": lambda: Slot(lambda ctx, data, ref: mark_safe(raw)),
    }
    want = lambda kind, esc_on: raw if (kind.endswith("safe") or not esc_on) else str(escape(raw))
    for order in itertools.permutations(sorted(makers), 2):
        for esc_on in (True, False):
            for kind in order + order:
                out = Inner.render(slots={"s": makers[kind]()}, escape_slots_content=esc_on, render_dependencies=False)
                exp = f"[{want(kind, esc_on)}]"
                if exp not in str(out):
                    return {"confirmed": True, "function": "Component._normalize_slot_fills (through Component.render)",
                            "inputs": {"slot content": kind, "escape_slots_content": esc_on, "renders before (same process)": list(order)},
                            "expected": exp, "observed": str(out)}
    # a normalised Slot handed on to a second component: still escaped exactly once
    for kind in sorted(makers):
        norm = Inner("x")._normalize_slot_fills({"s": makers[kind]()}, True)
        out = Outer.render(slots=norm, render_dependencies=False)
        exp = f"({want(kind, True)})"
        if exp not in str(out):
            return {"confirmed": True, "function": "Component._normalize_slot_fills (a normalised slot passed on)", "inputs": {"slot content": kind},
                    "expected": exp, "observed": str(out)}
    return {"confirmed": False}
