"""C02 - a quoted tag argument that contains template syntax: DynamicFilterExpression.__init__ and .resolve.

From the property / the documented semantics ("quoted strings that contain template syntax ... follow ... semantics as documented";
docs: "string literals ... are treated as regular Django templates"; "when the string literal contains only a single template
tag, with no extra text, then the value is passed as the original type instead of a string"):
  __init__  - the nested template is EXACTLY the text between the two quote characters (one character dropped at each end),
              lexed by the library's own lexer (parse_template, C09) and parsed with a NEW parser that knows exactly the tags and
              filters of the enclosing template's parser at that point; a string without template syntax is refused;
  resolve   - one node and it is a {{ }} variable: the VALUE of its expression in the given context (not its text);
              one node of another kind: what that node's render returns, as it is;
              otherwise: the text the nodes render to, each node's output stringified.
"""
import z3

from pyvc import ops
from pyvc.contracts import REG, Any_, Bool, Dict, Int, Obj, Opt, Ref, Seq, Str, Tup
from pyvc.interp import ExcVal, PyRaise
from pyvc.types import NONE, Conc, TAny, TBool, TInt, TStr, Val

P = "C02"
EXP = "django_components.expression"
S, I, B = z3.StringSort(), z3.IntSort(), z3.BoolSort()
PARSER = Obj("TemplateParser")
CTX = Obj("TemplateContext")
VALUE = Obj("PyValue")
TOKENS = Obj("TokenList")
NODE = Tup(TBool, TInt, tag="TemplateNode", fields=["is_variable", "id"])
NODES = Seq(NODE)
LIB = Dict(Str, Obj("TagOrFilterFunction"))      # by value: `{**parser.tags}` is a new table with the same entries
DFE = "DynamicFilterExpression"
REG.heap_class(DFE, {"expr": Str, "nodelist": NODES}, module=EXP)


def tokens_of(text):
    return ops.uf("parse_template_tokens", S, TOKENS.sort())(text)


def parsed(tokens, tags, filters):
    """Parser(tokens) with the given tag and filter tables: .parse()"""
    return ops.uf("django_parser_parse", TOKENS.sort(), LIB.sort(), LIB.sort(), NODES.sort())(tokens, tags, filters)


def tags_of(p):
    return ops.uf("parser_tags", PARSER.sort(), LIB.sort())(p)


def filters_of(p):
    return ops.uf("parser_filters", PARSER.sort(), LIB.sort())(p)


def is_dynamic(t):
    return ops.uf("is_dynamic_expression_text", S, B)(t)


def var_value(node, ctx):
    return ops.uf("variable_node_expression_value", NODE.sort(), CTX.sort(), VALUE.sort())(node, ctx)


def node_render(node, ctx):
    return ops.uf("node_render_result", NODE.sort(), CTX.sort(), VALUE.sort())(node, ctx)


def rendered_text(nodes, ctx):
    """NodeList(StringifiedNode(n) for n in nodes).render(ctx)"""
    return ops.uf("stringified_nodelist_render", NODES.sort(), CTX.sort(), S)(nodes, ctx)


def text_value(s):
    return ops.uf("str_as_value", S, VALUE.sort())(s)


class _NewParser:
    """the local `expr_parser`: a Parser over the nested tokens whose tables are assigned afterwards"""


def _parser_ctor(run, args, kwargs, node):
    tok = kwargs.get("tokens", args[0] if args else None)
    run.ghost["np_tokens"] = run.coerce(tok, TOKENS)
    return Conc(("obj_kind", "new_parser", None))


def _np_set(name):
    def f(run, obj, value, node):
        run.ghost[f"np_{name}"] = run.coerce(value, LIB)
        return None
    return f


REG.stub(("setattr", "conc:obj_kind:new_parser", "tags"), _np_set("tags"))
REG.stub(("setattr", "conc:obj_kind:new_parser", "filters"), _np_set("filters"))
REG.stub(("getattr", "TemplateParser", "tags"), lambda run, obj, node: Val(LIB, tags_of(obj.t)))
REG.stub(("getattr", "TemplateParser", "filters"), lambda run, obj, node: Val(LIB, filters_of(obj.t)))


def _np_parse(run, obj, args, kwargs, node):
    if run.choose(2, None) == 1:
        raise PyRaise(ExcVal("TemplateSyntaxError", [], site="Parser.parse(): the nested template does not compile"))
    g = run.ghost
    if "np_tags" not in g or "np_filters" not in g:
        from pyvc.interp import EngineError
        raise EngineError("nested parser used before its tag / filter tables were set")
    return Val(NODES, parsed(g["np_tokens"].t, g["np_tags"].t, g["np_filters"].t))


REG.stub(("method", "conc:obj_kind:new_parser", "parse"), _np_parse)


def _parse_template(run, args, kwargs, node):
    if run.choose(2, None) == 1:
        raise PyRaise(ExcVal("TemplateSyntaxError", [], site="parse_template: unclosed tag in the nested template"))
    return Val(TOKENS, tokens_of(run.coerce(args[0], TStr).t))


def _expr(c, old=False):
    return z3.Select(c.field(DFE, "expr", old), c.old("self").t)


def _nodes(c, old=False):
    return z3.Select(c.field(DFE, "nodelist", old), c.old("self").t)


def _init_post(c):
    t = c.old("expr_str").t
    inner = z3.SubString(t, 1, z3.Length(t) - 2)
    p = c.old("parser").t
    return z3.And(is_dynamic(t), _expr(c) == inner, _nodes(c) == parsed(tokens_of(inner), tags_of(p), filters_of(p)))


REG.contract(
    f"{EXP}:DynamicFilterExpression.__init__", prop=P, types={"self": Ref(DFE), "parser": PARSER, "expr_str": Str},
    calls={"is_dynamic_expression": lambda run, args, kwargs, node: Val(TBool, is_dynamic(run.coerce(args[0], TStr).t)),
           "parse_template": _parse_template, "Parser": _parser_ctor},
    requires=[lambda c: c["self"].t > 0, lambda c: z3.Length(c["expr_str"].t) >= 2],     # is_dynamic_expression needs >= 6 characters (its own first test)
    modifies=[f"{DFE}.expr", f"{DFE}.nodelist"],
    raises={"TemplateSyntaxError": None},
    ensures={"nested_template_is_exactly_the_text_between_the_quotes_parsed_with_the_enclosing_tags_and_filters": _init_post},
)



def _var_resolve(run, obj, args, kwargs, node):
    if run.choose(2, None) == 1:
        raise PyRaise(ExcVal("Any", [], site="filter_expression.resolve (user filters / variables)"))
    return Val(VALUE, var_value(obj.obj[2].t, run.coerce(args[0], CTX).t), foreign=True)


REG.stub(("isinstance", "VariableNode"), lambda run, v: NODE.proj(v.t, 0))
REG.stub(("getattr", "TemplateNode", "filter_expression"), lambda run, obj, node: Conc(("obj_kind", "filter_expression_of", obj)))
REG.stub(("method", "conc:obj_kind:filter_expression_of", "resolve"), _var_resolve)


def _node_render(run, obj, args, kwargs, node):
    if run.choose(2, None) == 1:
        raise PyRaise(ExcVal("Any", [], site="node.render (template tag code)"))
    return Val(VALUE, node_render(obj.t, run.coerce(args[0], CTX).t), foreign=True)


REG.stub(("method", "TemplateNode", "render"), _node_render)


def _nodelist_ctor(run, args, kwargs, node):
    """NodeList(StringifiedNode(node) for node in self.nodelist): GHOST: which nodes, all stringified"""
    g = args[0]
    ok = isinstance(g, Conc) and isinstance(g.obj, tuple) and g.obj[0] == "genexp"
    src = None
    if ok:
        import ast as _ast
        ge = g.obj[1]
        elt_ok = isinstance(ge.elt, _ast.Call) and _ast.unparse(ge.elt.func) == "StringifiedNode" and len(ge.generators) == 1 and not ge.generators[0].ifs \
            and _ast.unparse(ge.elt.args[0]) == _ast.unparse(ge.generators[0].target)
        if not elt_ok:
            ok = False
        else:
            src = run.ev(ge.generators[0].iter, g.obj[2])
    if not ok:
        from pyvc.interp import EngineError
        raise EngineError("NodeList built from something other than `StringifiedNode(n) for n in <nodes>`")
    return Conc(("obj_kind", "stringified_nodelist", run.coerce(src, NODES)))


def _snl_render(run, obj, args, kwargs, node):
    if run.choose(2, None) == 1:
        raise PyRaise(ExcVal("Any", [], site="nodelist.render (template code)"))
    return Val(VALUE, text_value(rendered_text(obj.obj[2].t, run.coerce(args[0], CTX).t)))


REG.stub(("method", "conc:obj_kind:stringified_nodelist", "render"), _snl_render)


def _resolve_post(c):
    ns = _nodes(c, True)
    ctx = c.old("context").t
    r = c["result"].t
    return z3.If(z3.Length(ns) == 1,
                 z3.If(NODE.proj(ns[0], 0), r == var_value(ns[0], ctx), r == node_render(ns[0], ctx)),
                 r == text_value(rendered_text(ns, ctx)))


REG.contract(
    f"{EXP}:DynamicFilterExpression.resolve", prop=P, types={"self": Ref(DFE), "context": CTX}, result=VALUE,
    calls={"NodeList": _nodelist_ctor},
    requires=[lambda c: c["self"].t > 0],
    modifies=[], raises={"Any": None},
    ensures={"single_variable_gives_its_value_single_tag_its_result_otherwise_the_rendered_text": _resolve_post},
)
