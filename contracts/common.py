"""Shared sorts and attribute stubs for component classes."""
import z3

from pyvc import ops
from pyvc.contracts import REG, Obj, Opt, Str
from pyvc.types import TOpt, TStr, Val

CLS = Obj("CompClass")
S = z3.StringSort()
OS = TOpt(TStr)


def class_hash(c):
    return ops.uf("class_hash", CLS.sort(), S)(c)


def class_name(c):
    return ops.uf("class_name", CLS.sort(), S)(c)


def class_js(c):
    return ops.uf("class_js", CLS.sort(), OS.sort())(c)


def class_css(c):
    return ops.uf("class_css", CLS.sort(), OS.sort())(c)


REG.stub(("getattr", "CompClass", "_class_hash"), lambda run, obj, node: Val(TStr, class_hash(obj.t)))
REG.stub(("getattr", "CompClass", "__name__"), lambda run, obj, node: Val(TStr, class_name(obj.t)))
REG.stub(("getattr", "CompClass", "js"), lambda run, obj, node: Val(OS, class_js(obj.t)))
REG.stub(("getattr", "CompClass", "css"), lambda run, obj, node: Val(OS, class_css(obj.t)))
