"""C15 - registries behave as dictionaries and keep the tag library consistent.

Abstract view  M: name -> entry(cls, tag)  = self._registry.   RInv ties _tags and the library to M.
Assumptions: the tag formatter is a deterministic function of (registry, name) (uninterpreted `start_tag_of`);
A-LIB (nobody else touches the registry's tags in its Library between two registry calls); the quantifier of the
property speaks of private Library instances, so `self._library is not None` is a precondition here.
"""
import z3

from pyvc import ops
from pyvc.contracts import REG, Bool, Dict, Int, Loop, Obj, Opt, Ref, Seq, Set, Str, Tup
from pyvc.interp import ExcVal, PyRaise
from pyvc.types import NONE, Conc, TStr, Val

P = "C15"
MOD = "django_components.component_registry"
LIBMOD = "django_components.library"
from contracts.common import CLS, class_hash  # noqa: E402
TAGFN = Obj("TagFn")
ENTRY = Tup(CLS, Str, tag="RegistryEntry", fields=["cls", "tag"])
REGD = Dict(Str, ENTRY)
TAGSD = Dict(Str, Set(Str))
LIBTAGS = Dict(Str, TAGFN)
REGC, LIB = "ComponentRegistry", "Library"

REG.heap_class(REGC, {"_registry": REGD, "_tags": TAGSD, "_library": Ref(LIB)}, module=MOD)
REG.heap_class(LIB, {"tags": LIBTAGS, "_protected_tags": Seq(Str)})
REG.record("ComponentRegistryEntry", ENTRY)

S = z3.StringSort()


REG.stub(("new", "ComponentRegistryEntry"), lambda run, args, kwargs, node: Val(ENTRY, ENTRY.mk(
    run.coerce(kwargs["cls"] if "cls" in kwargs else args[0], CLS).t, run.coerce(kwargs["tag"] if "tag" in kwargs else args[1], Str).t)))


def start_tag_of(reg, name):
    return ops.uf("start_tag_of", z3.IntSort(), S, S)(reg, name)


def _get_tag_formatter(run, args, kwargs, node):
    return Conc(("obj_kind", "formatter", args[0]))


REG.stub("django_components.tag_formatter:get_tag_formatter", _get_tag_formatter)


def _fmt_start_tag(run, obj, args, kwargs, node):
    """InternalTagFormatter.start_tag: deterministic in (registry, name); may raise ValueError (invalid tag chars)."""
    if run.choose(2, None) == 1:
        raise PyRaise(ExcVal("ValueError", [], site="formatter.start_tag (invalid tag)"))
    return Val(TStr, start_tag_of(obj.obj[2].t, run.coerce(args[0], Str).t))


REG.stub(("method", "conc:obj_kind:formatter", "start_tag"), _fmt_start_tag)


def _library_tag(run, obj, args, kwargs, node):
    """django.template.Library.tag(name, fn): self.tags[name] = fn."""
    cur = run.load_field(obj.t, LIB, "tags")
    fn = Val(TAGFN, z3.FreshConst(TAGFN.sort(), "tagfn"))
    new = ops.setitem(run, cur, run.coerce(args[0], Str), fn, node)
    run.store_field(obj.t, LIB, "tags", new)
    return NONE


REG.stub(("method", f"Ref_{LIB}", "tag"), _library_tag)

# ---------------------------------------------------------------------------------------------------- spec helpers
I = z3.IntSort()


def F(c, cls, name, old=False):
    return c.field(cls, name, old)


def _self(c):
    return c["self"].t


def regd(c, old=False):
    return z3.Select(F(c, REGC, "_registry", old), _self(c))


def tagsd(c, old=False):
    return z3.Select(F(c, REGC, "_tags", old), _self(c))


def lib_of(c, old=False):
    return z3.Select(F(c, REGC, "_library", old), _self(c))


def libtags(c, old=False):
    return z3.Select(F(c, LIB, "tags", old), lib_of(c, old))


def protected(c, t, old=False):
    return z3.Contains(z3.Select(F(c, LIB, "_protected_tags", old), lib_of(c, old)), z3.Unit(t))


SS = Set(Str)


def rinv(c, old=False):
    r, t = regd(c, old), tagsd(c, old)
    n = z3.Const("bv_n", S)
    tg = z3.Const("bv_t", S)
    entry_tag = lambda nm: ENTRY.proj(z3.Select(REGD.val(r), nm), 1)
    members = lambda tag: z3.Select(TAGSD.val(t), tag)
    return z3.And(
        lib_of(c, old) > 0,
        # every registered name is listed under its tag, and the tag is what the formatter gives for that name
        z3.ForAll([n], z3.Implies(z3.Select(REGD.has(r), n), z3.And(
            z3.Select(TAGSD.has(t), entry_tag(n)), z3.Select(SS.has(members(entry_tag(n))), n),
            entry_tag(n) == start_tag_of(_self(c), n)))),
        # _tags lists only registered names, under their own tag
        z3.ForAll([tg, n], z3.Implies(z3.And(z3.Select(TAGSD.has(t), tg), z3.Select(SS.has(members(tg)), n)),
                                      z3.And(z3.Select(REGD.has(r), n), entry_tag(n) == tg))),
        # no empty tag sets
        z3.ForAll([tg], z3.Implies(z3.Select(TAGSD.has(t), tg), SS.size(members(tg)) >= 1)),
        # a tag in use exists in the library and is not protected (A-LIB between calls)
        z3.ForAll([tg], z3.Implies(z3.Select(TAGSD.has(t), tg), z3.And(z3.Select(LIBTAGS.has(libtags(c, old)), tg), z3.Not(protected(c, tg, old))))),
    )


def protected_untouched(c):
    """Protected tags of the library are never assigned or deleted; the protected list itself is unchanged."""
    tg = z3.FreshConst(S, "t")
    lt0, lt1 = libtags(c, True), libtags(c)
    return z3.And(
        z3.Select(F(c, LIB, "_protected_tags"), lib_of(c)) == z3.Select(F(c, LIB, "_protected_tags", True), lib_of(c, True)),
        lib_of(c) == lib_of(c, True),
        z3.ForAll([tg], z3.Implies(protected(c, tg, True), z3.And(z3.Select(LIBTAGS.has(lt1), tg) == z3.Select(LIBTAGS.has(lt0), tg),
                                                                   z3.Select(LIBTAGS.val(lt1), tg) == z3.Select(LIBTAGS.val(lt0), tg)))))


def other_lib_tags_unchanged(c, tag):
    tg = z3.FreshConst(S, "t")
    lt0, lt1 = libtags(c, True), libtags(c)
    return z3.ForAll([tg], z3.Implies(tg != tag, z3.And(z3.Select(LIBTAGS.has(lt1), tg) == z3.Select(LIBTAGS.has(lt0), tg),
                                                         z3.Select(LIBTAGS.val(lt1), tg) == z3.Select(LIBTAGS.val(lt0), tg))))


def reg_unchanged(c):
    return z3.And(regd(c) == regd(c, True), tagsd(c) == tagsd(c, True), libtags(c) == libtags(c, True))


def reg_is(c, f):
    """M' = f(M) pointwise: f(name, has_old, val_old) -> (has_new, val_new)"""
    n = z3.FreshConst(S, "n")
    r0, r1 = regd(c, True), regd(c)
    h, v = f(n, z3.Select(REGD.has(r0), n), z3.Select(REGD.val(r0), n))
    return z3.ForAll([n], z3.And(z3.Select(REGD.has(r1), n) == h, z3.Implies(h, z3.Select(REGD.val(r1), n) == v)))


# ============================================================================================= library property
REG.contract(
    f"{MOD}:ComponentRegistry.library", prop=P, result=Ref(LIB),
    requires=[lambda c: lib_of(c) > 0],      # private Library instance (the property's quantifier)
    modifies=[], raises={},
    ensures={"is_own_library": lambda c: c["result"].t == lib_of(c)},
)

# ============================================================================================= library.py
REG.contract(
    f"{LIBMOD}:is_tag_protected", prop=P, types={"lib": Ref(LIB), "tag": Str}, result=Bool,
    requires=[lambda c: c["lib"].t > 0], modifies=[], raises={},
    ensures={"is_membership": lambda c: c["result"].t == z3.Contains(z3.Select(F(c, LIB, "_protected_tags"), c["lib"].t), z3.Unit(c["tag"].t))},
)

REG.contract(
    f"{LIBMOD}:register_tag", prop=P, types={"library": Ref(LIB), "tag": Str, "tag_fn": TAGFN},
    requires=[lambda c: c["library"].t > 0], modifies=[f"{LIB}.tags"],
    raises={"TagProtectedError": lambda c: z3.Contains(z3.Select(F(c, LIB, "_protected_tags", True), c.old("library").t), z3.Unit(c.old("tag").t))},
    xensures={"TagProtectedError": {"library_unchanged": lambda c: F(c, LIB, "tags") == F(c, LIB, "tags", True)}},
    ensures={
        "not_protected": lambda c: z3.Not(z3.Contains(z3.Select(F(c, LIB, "_protected_tags", True), c.old("library").t), z3.Unit(c.old("tag").t))),
        "tag_present": lambda c: z3.Select(LIBTAGS.has(z3.Select(F(c, LIB, "tags"), c.old("library").t)), c.old("tag").t),
        "others_unchanged": lambda c: _lib_others(c),
    },
)


def _lib_others(c):
    tg = z3.FreshConst(S, "t")
    r = z3.FreshConst(I, "r")
    l0 = lambda ref: z3.Select(F(c, LIB, "tags", True), ref)
    l1 = lambda ref: z3.Select(F(c, LIB, "tags"), ref)
    lib, tag = c.old("library").t, c.old("tag").t
    return z3.And(
        z3.ForAll([r], z3.Implies(r != lib, l1(r) == l0(r))),
        z3.ForAll([tg], z3.Implies(tg != tag, z3.And(z3.Select(LIBTAGS.has(l1(lib)), tg) == z3.Select(LIBTAGS.has(l0(lib)), tg),
                                                      z3.Select(LIBTAGS.val(l1(lib)), tg) == z3.Select(LIBTAGS.val(l0(lib)), tg)))))


# ============================================================================================= _register_to_library
REG.contract(
    f"{MOD}:ComponentRegistry._register_to_library", prop=P, optional=True, types={"comp_name": Str, "component": CLS}, result=ENTRY,
    requires=[lambda c: lib_of(c) > 0], modifies=[f"{LIB}.tags"],
    raises={"TagProtectedError": lambda c: protected(c, start_tag_of(_self(c), c.old("comp_name").t), True), "ValueError": None},
    xensures={"TagProtectedError": {"state_unchanged": lambda c: F(c, LIB, "tags") == F(c, LIB, "tags", True)},
              "ValueError": {"state_unchanged": lambda c: F(c, LIB, "tags") == F(c, LIB, "tags", True)}},
    ensures={
        "entry": lambda c: c["result"].t == ENTRY.mk(c.old("component").t, start_tag_of(_self(c), c.old("comp_name").t)),
        "tag_in_library_not_protected": lambda c: z3.And(
            z3.Select(LIBTAGS.has(libtags(c)), start_tag_of(_self(c), c.old("comp_name").t)),
            z3.Not(protected(c, start_tag_of(_self(c), c.old("comp_name").t), True))),
        "other_library_tags_unchanged": lambda c: other_lib_tags_unchanged(c, start_tag_of(_self(c), c.old("comp_name").t)),
        "other_libraries_unchanged": lambda c: _other_libs(c),
    },
)


def _other_libs(c):
    r = z3.FreshConst(I, "r")
    return z3.ForAll([r], z3.Implies(r != lib_of(c, True), z3.Select(F(c, LIB, "tags"), r) == z3.Select(F(c, LIB, "tags", True), r)))


# ============================================================================================= get
REG.contract(
    f"{MOD}:ComponentRegistry.get", prop=P, types={"name": Str}, result=CLS,
    requires=[], modifies=[],
    raises={"NotRegistered": lambda c: z3.Not(z3.Select(REGD.has(regd(c, True)), c.old("name").t))},
    ensures={
        "registered": lambda c: z3.Select(REGD.has(regd(c)), c.old("name").t),     # i.e. NotRegistered exactly when missing
        "returns_class": lambda c: c["result"].t == ENTRY.proj(z3.Select(REGD.val(regd(c)), c.old("name").t), 0),
    },
)

# ============================================================================================= register
_same_hash = lambda c: class_hash(ENTRY.proj(z3.Select(REGD.val(regd(c, True)), c.old("name").t), 0)) == class_hash(c.old("component").t)

def _watch_reg(c, when):
    old = when == "pre"
    name = c.old("name").t if when == "post" else c["name"].t
    tag = start_tag_of(_self(c), name)
    r, t = regd(c), tagsd(c)
    return {"tag": tag, "has_reg_name": z3.Select(REGD.has(r), name), "has_tags_tag": z3.Select(TAGSD.has(t), tag),
            "name_in_members": z3.Select(SS.has(z3.Select(TAGSD.val(t), tag)), name), "size_members": SS.size(z3.Select(TAGSD.val(t), tag)),
            "entry_tag_name": ENTRY.proj(z3.Select(REGD.val(r), name), 1)}


REG.contract(
    f"{MOD}:ComponentRegistry.register", prop=P, types={"name": Str, "component": CLS}, watch=_watch_reg,
    requires=[rinv], modifies=[f"{REGC}._registry", f"{REGC}._tags", f"{LIB}.tags"],
    raises={
        "AlreadyRegistered": lambda c: z3.And(z3.Select(REGD.has(regd(c, True)), c.old("name").t), z3.Not(_same_hash(c))),
        "TagProtectedError": lambda c: protected(c, start_tag_of(_self(c), c.old("name").t), True),
        "ValueError": None,
    },
    xensures={e: {"state_unchanged": reg_unchanged} for e in ("AlreadyRegistered", "TagProtectedError", "ValueError")},
    ensures={
        "no_conflict": lambda c: z3.Implies(z3.Select(REGD.has(regd(c, True)), c.old("name").t), _same_hash(c)),
        "dictionary_update": lambda c: reg_is(c, lambda n, h, v: (
            z3.Or(h, n == c.old("name").t),
            z3.If(n == c.old("name").t, ENTRY.mk(c.old("component").t, start_tag_of(_self(c), c.old("name").t)), v))),
        "rinv": rinv,
        "protected_untouched": protected_untouched,
        "other_library_tags_unchanged": lambda c: other_lib_tags_unchanged(c, start_tag_of(_self(c), c.old("name").t)),
    },
)

# ============================================================================================= unregister
def _tag_of(c, name):
    return ENTRY.proj(z3.Select(REGD.val(regd(c, True)), name), 1)


def _others_use_tag(c, name):
    n = z3.FreshConst(S, "n2")
    return z3.Exists([n], z3.And(n != name, z3.Select(REGD.has(regd(c, True)), n), _tag_of(c, n) == _tag_of(c, name)))


REG.contract(
    f"{MOD}:ComponentRegistry.unregister", prop=P, types={"name": Str},
    requires=[rinv], modifies=[f"{REGC}._registry", f"{REGC}._tags", f"{LIB}.tags"],
    raises={"NotRegistered": lambda c: z3.Not(z3.Select(REGD.has(regd(c, True)), c.old("name").t))},
    xensures={"NotRegistered": {"state_unchanged": reg_unchanged}},
    ensures={
        "was_registered": lambda c: z3.Select(REGD.has(regd(c, True)), c.old("name").t),
        "dictionary_delete": lambda c: reg_is(c, lambda n, h, v: (z3.And(h, n != c.old("name").t), v)),
        "rinv": rinv,
        "protected_untouched": protected_untouched,
        # the tag leaves the library exactly when no other registered name uses it
        "tag_removed_iff_unused": lambda c: z3.Select(LIBTAGS.has(libtags(c)), _tag_of(c, c.old("name").t)) == _others_use_tag(c, c.old("name").t),
        "other_library_tags_unchanged": lambda c: other_lib_tags_unchanged(c, _tag_of(c, c.old("name").t)),
    },
)

# ============================================================================================= all
ALLD = Dict(Str, CLS)
REG.contract(
    f"{MOD}:ComponentRegistry.all", prop=P, result=ALLD, requires=[], modifies=[], raises={},
    ensures={"same_keys_and_classes": lambda c: _all_post(c)},
)


def _all_post(c):
    n = z3.FreshConst(S, "n")
    r = regd(c)
    res = c["result"].t
    return z3.ForAll([n], z3.And(z3.Select(ALLD.has(res), n) == z3.Select(REGD.has(r), n),
                                 z3.Implies(z3.Select(REGD.has(r), n), z3.Select(ALLD.val(res), n) == ENTRY.proj(z3.Select(REGD.val(r), n), 0))))


# ============================================================================================= clear
def _clear_inv_remaining(c):
    """The not-yet-visited names are exactly the names still registered."""
    K = c["all_comp_names"].t
    i = c["_i0"].t
    j = z3.FreshConst(I, "j")
    n = z3.FreshConst(S, "n")
    r = regd(c)
    pos = lambda key: ops.keypos(K, key)
    return z3.And(
        z3.ForAll([j], z3.Implies(z3.And(i <= j, j < z3.Length(K)), z3.And(z3.Select(REGD.has(r), K[j]), pos(K[j]) == j))),
        z3.ForAll([n], z3.Implies(z3.Select(REGD.has(r), n), z3.And(i <= pos(n), pos(n) < z3.Length(K), K[pos(n)] == n))),
    )


def _clear_entry(run, fr):
    pass


REG.contract(
    f"{MOD}:ComponentRegistry.clear", prop=P,
    requires=[rinv], modifies=[f"{REGC}._registry", f"{REGC}._tags", f"{LIB}.tags"], raises={},
    locals={"all_comp_names": Seq(Str)},
    loops={0: Loop(inv=[rinv, _clear_inv_remaining, protected_untouched], variant="len(all_comp_names) - _i0")},
    ensures={
        "empty": lambda c: z3.And(REGD.size(regd(c)) == 0, _no_key(c)),
        "rinv": rinv,
        "protected_untouched": protected_untouched,
    },
)


def _no_key(c):
    n = z3.FreshConst(S, "n")
    return z3.ForAll([n], z3.Not(z3.Select(REGD.has(regd(c)), n)))


ASSUMES = ["A-PY", "A-INST", "A-LIB"]
NOT_COVERED = [
    "registries without a private Library (the lazily imported global tag library) - the property quantifies over private Library instances",
    "two registries sharing one Library",
    "the tag formatter is modelled as a deterministic function of (registry, name) that may raise ValueError",
]


# ------------------------------------------------------------------------------------------- replay on the real code
def _registry_battery(model, ob):
    """every register / unregister / get / all / clear sequence up to length 4 over 3 names and 2 classes on a real
    ComponentRegistry with its own Library (default formatter and a shorthand formatter that maps two names to ONE tag,
    plus a protected tag), against a dict: results, exact exceptions, state unchanged on error, library tags = tags in use"""
    import itertools
    from django.conf import settings
    if not settings.configured:
        from tests.django_test_setup import setup_test_config
        setup_test_config({"autodiscover": False})
    from django.template import Library
    from django_components import AlreadyRegistered, Component, ComponentRegistry, NotRegistered, RegistrySettings, TagProtectedError
    from django_components.library import mark_protected_tags
    from django_components.tag_formatter import ShorthandComponentFormatter

    class A(Component):
        template = "a"

    class Bc(Component):
        template = "b"
    names = ["x", "y", "slot"]
    ops_ = [("register", n, c) for n in names for c in (A, Bc)] + [("unregister", n, None) for n in names] + [("get", "x", None), ("all", None, None), ("clear", None, None)]
    for fmt_name, fmt in (("component", None), ("shorthand", ShorthandComponentFormatter())):
        for n in range(1, 5):
            for seq in itertools.product(ops_, repeat=n):
                if n == 4 and seq[0][0] != "register":
                    continue
                lib = Library()
                lib.tags["slot"] = lambda parser, token: None           # a tag the registry does not own (protected)
                mark_protected_tags(lib, ["slot"])
                rs = RegistrySettings(tag_formatter=fmt) if fmt is not None else None
                reg = ComponentRegistry(library=lib, settings=rs)
                ref = {}
                for step, (op, name, cls) in enumerate(seq):
                    before = dict(ref)
                    err = None
                    try:
                        if op == "register":
                            reg.register(name, cls)
                        elif op == "unregister":
                            reg.unregister(name)
                        elif op == "get":
                            got = reg.get(name)
                        elif op == "all":
                            got = reg.all()
                        else:
                            reg.clear()
                    except Exception as e:
                        err = e
                    want_err = None
                    protected = fmt_name == "shorthand" and name == "slot"
                    if op == "register":
                        if name in ref and ref[name] is not cls:
                            want_err = AlreadyRegistered
                        elif protected:
                            want_err = TagProtectedError
                        else:
                            ref[name] = cls
                    elif op == "unregister":
                        if name not in ref:
                            want_err = NotRegistered
                        else:
                            del ref[name]
                    elif op == "get":
                        if name not in ref:
                            want_err = NotRegistered
                    elif op == "clear":
                        ref = {}
                    tags_in_use = {("component" if fmt_name == "component" else nm) for nm in ref}
                    lib_tags = set(lib.tags) - {"slot"}
                    bad = None
                    if (type(err) if err else None) is not want_err:
                        bad = f"raised {type(err).__name__ if err else 'nothing'}, dictionary semantics say {want_err.__name__ if want_err else 'nothing'}"
                    elif err is None and op == "get" and got is not ref[name]:
                        bad = "get returned another class"
                    elif err is None and op == "all" and got != ref:
                        bad = f"all() == {got}"
                    elif reg.all() != (before if want_err else ref):
                        bad = f"registry holds {sorted(reg.all())}"
                    elif "slot" not in lib.tags:
                        bad = "the protected tag `slot` was removed from the library"
                    elif lib_tags != tags_in_use:
                        bad = f"library tags {sorted(lib_tags)} but tags in use {sorted(tags_in_use)}"
                    if bad:
                        return {"confirmed": True, "function": "ComponentRegistry", "inputs": {"formatter": fmt_name, "operations": [f"{o}({nm or ''}{',' + c.__name__ if c else ''})" for o, nm, c in seq[:step + 1]]},
                                "expected": f"dictionary {sorted(before if want_err else ref)}", "observed": bad}
    return {"confirmed": False}


for _m in ("register", "unregister", "get", "all", "clear", "_register_to_library"):
    REG.replays[f"{MOD}:ComponentRegistry.{_m}"] = _registry_battery


# ================================================================================================ @register(name, registry=...)
# From the property ("a registry's contents equal those of a plain dictionary driven by the same calls"): the decorator is ONE
# register call - on the registry given (the default registry when none is given: the enclosing function's two lines), with
# exactly the decorator's name and the decorated class - and it returns the class itself, unchanged.
def _dec_register(run, args, kwargs, node):
    from pyvc.types import TInt
    n = run.ghost.get("register_calls")
    run.ghost["register_calls"] = Val(TInt, (n.t if n is not None else z3.IntVal(0)) + 1)
    run.ghost["register_args"] = dict(kwargs, **{f"_pos{k}": a for k, a in enumerate(args)})
    from pyvc.interp import ExcVal, PyRaise
    if run.choose(2, None) == 1:
        raise PyRaise(ExcVal("AlreadyRegistered", [], site="registry.register: the name is taken by another class"))
    return NONE


def _dec_post(c):
    a = c.ghost["register_args"]
    ok = set(a) == {"name", "component"}
    return z3.And(z3.BoolVal(ok), c.ghost["register_calls"].t == 1, *( [c.run.coerce(a["name"], Str).t == c.run.globals["name"].t, a["component"].t == c.old("component").t] if ok else []),
                  c["result"].t == c.old("component").t)


REG.contract(
    f"{MOD}:register.decorator", prop=P, types={"component": CLS}, result=CLS,
    globals={"name": Str, "registry": Obj("RegistryHandle")}, calls={"registry.register": _dec_register},
    modifies=[], raises={"AlreadyRegistered": None},
    ensures={"one_register_call_with_this_name_and_this_class_and_the_class_returned": _dec_post},
)
