"""C13 / C02 - repeated keyword arguments of {% html_attrs %} are merged, nothing else is touched.

merge_repeated_kwargs(params): positional params and the FIRST occurrence of every key stay where they are, in order; a key
given several times gets ONE entry (at the place of its first occurrence) whose value is str(v1) + " " + str(v2) + ...;
a key given once keeps its original object and value; the caller's TagParam objects are not modified.
TagParam objects are mutable and aliased between the work dict and the result list, so they live on the heap.
"""
import z3

from pyvc import ops
from pyvc.contracts import REG, Any_, Dict, Int, Loop, Opt, Ref, Seq, Set, Str
from pyvc.types import TAny, TInt, TOpt, TRef, TStr, Val

P = ("C13", "C02")
MOD = "django_components.util.template_tag"
TP = "TagParam"
S, I, B = z3.StringSort(), z3.IntSort(), z3.BoolSort()
PV = TAny.sort()
OS = TOpt(TStr)
PARAMS = Seq(Ref(TP))
REG.heap_class(TP, {"key": Opt(Str), "value": Any_}, module=MOD)


def pstr(v):
    return ops.uf("str_PyVal", PV, S)(v)


def _key(c, r, old=False):
    return z3.Select(c.field(TP, "key", old), r)


def _val(c, r, old=False):
    return z3.Select(c.field(TP, "value", old), r)


# ---- spec functions over the prefix params[0..i)  (definitional recursion; `params` and the ENTRY heap are fixed)
def _sf():
    return {"seen": z3.Function("mrk_seen", I, S, B),          # key k occurs in params[0..i)
            "cnt": z3.Function("mrk_count", I, S, I),           # how often
            "kept": z3.Function("mrk_kept", I, I),              # number of result entries produced by params[0..i)
            "slot": z3.Function("mrk_slot", I, S, I),           # position of k's entry in the result
            "first": z3.Function("mrk_first", I, S, I),         # index in params of k's first occurrence
            "mv": z3.Function("mrk_merged_value", I, S, PV),    # value of k's entry
            "src": z3.Function("mrk_source_index", I, I)}       # result position -> index in params of the param kept there


def _entry(run, fr):
    from pyvc.interp import SpecCtx
    c = SpecCtx(run, fr)
    params = fr.vars["params"].t
    f = _sf()
    i, p = z3.FreshConst(I, "i"), z3.FreshConst(I, "p")
    k = z3.FreshConst(S, "k")
    key0 = lambda j: z3.Select(run.field_array(TP, "key"), params[j])
    val0 = lambda j: z3.Select(run.field_array(TP, "value"), params[j])
    rng = z3.And(0 <= i, i < z3.Length(params))
    is_kw = z3.Not(OS.is_none(key0(i)))
    kk = OS.get(key0(i))
    new_entry = z3.Or(z3.Not(is_kw), z3.Not(f["seen"](i, kk)))
    space = z3.StringVal(" ")
    for ax in (
        z3.ForAll([k], z3.And(z3.Not(f["seen"](0, k)), f["cnt"](0, k) == 0)),
        f["kept"](0) == 0,
        z3.ForAll([i, k], z3.Implies(rng, z3.And(
            f["seen"](i + 1, k) == z3.Or(f["seen"](i, k), z3.And(is_kw, kk == k)),
            f["cnt"](i + 1, k) == f["cnt"](i, k) + z3.If(z3.And(is_kw, kk == k), 1, 0),
            f["slot"](i + 1, k) == z3.If(z3.And(is_kw, kk == k, z3.Not(f["seen"](i, k))), f["kept"](i), f["slot"](i, k)),
            f["first"](i + 1, k) == z3.If(z3.And(is_kw, kk == k, z3.Not(f["seen"](i, k))), i, f["first"](i, k)),
            f["mv"](i + 1, k) == z3.If(z3.And(is_kw, kk == k),
                                       z3.If(f["seen"](i, k),
                                             PV.StrV(z3.Concat(pstr(f["mv"](i, k)), space, pstr(val0(i)))),
                                             val0(i)),
                                       f["mv"](i, k))))),
        z3.ForAll([i], z3.Implies(rng, z3.And(f["kept"](i + 1) == f["kept"](i) + z3.If(new_entry, 1, 0),
                                              z3.Implies(new_entry, f["src"](f["kept"](i)) == i)))),
        z3.ForAll([i], z3.Implies(z3.And(0 <= i, i <= z3.Length(params)), z3.And(0 <= f["kept"](i), f["kept"](i) <= i))),
        # A-PY: str() of a str is that str
        z3.ForAll([z3.Const("bv_s", S)], z3.And(pstr(PV.StrV(z3.Const("bv_s", S))) == z3.Const("bv_s", S), pstr(PV.SafeV(z3.Const("bv_s", S))) == z3.Const("bv_s", S))),
    ):
        run.pc.append(ax)


def _inv(c, upto=None, res=None, at_exit=False):
    f = _sf()
    params = c.old("params").t
    i = upto if upto is not None else c["_i0"].t
    res = res if res is not None else c["resolved_params"].t
    k, k2 = z3.Const("bv_k", S), z3.Const("bv_k2", S)
    p = z3.Const("bv_p", I)
    r = z3.Const("bv_r", I)
    nr0 = z3.Int("next_ref0")
    obj = lambda kk: res[f["slot"](i, kk)]
    clauses = [
        z3.Length(res) == f["kept"](i),
        # the caller's objects are never modified
        z3.ForAll([r], z3.Implies(z3.And(0 < r, r < nr0), z3.And(_key(c, r) == _key(c, r, True), _val(c, r) == _val(c, r, True)))),
        # every seen key has exactly one entry, at the slot of its first occurrence, carrying the merged value
        z3.ForAll([k], z3.Implies(f["seen"](i, k), z3.And(
            0 <= f["slot"](i, k), f["slot"](i, k) < f["kept"](i), 0 <= f["first"](i, k), f["first"](i, k) < i, f["cnt"](i, k) >= 1,
            f["src"](f["slot"](i, k)) == f["first"](i, k),
            _key(c, obj(k)) == OS.some(k), _val(c, obj(k)) == f["mv"](i, k),
            z3.If(f["cnt"](i, k) == 1, obj(k) == params[f["first"](i, k)], obj(k) >= nr0)))),
        z3.ForAll([k], z3.And(f["cnt"](i, k) >= 0, f["seen"](i, k) == (f["cnt"](i, k) >= 1))),
        # two keys never share an entry
        z3.ForAll([k, k2], z3.Implies(z3.And(f["seen"](i, k), f["seen"](i, k2), k != k2), z3.And(f["slot"](i, k) != f["slot"](i, k2), obj(k) != obj(k2)))),
        # every other position holds the caller's param that was kept there (positional, or a key's only occurrence)
        z3.ForAll([p], z3.Implies(z3.And(0 <= p, p < f["kept"](i)), z3.And(
            0 <= f["src"](p), f["src"](p) < i,
            z3.Or(res[p] == params[f["src"](p)],
                  z3.And(z3.Not(OS.is_none(_key(c, params[f["src"](p)], True))), f["cnt"](i, OS.get(_key(c, params[f["src"](p)], True))) >= 2,
                         f["slot"](i, OS.get(_key(c, params[f["src"](p)], True))) == p))))),
        z3.ForAll([p], z3.Implies(z3.And(0 <= p, p < f["kept"](i)), z3.And(res[p] > 0, res[p] < c.run.next_ref))),
    ]
    if not at_exit:
        x = z3.Const("bv_x", I)
        clauses.append(z3.ForAll([x], z3.Implies(z3.Select(Set(Int).has(c["replaced_param_indices"].t), x), z3.And(0 <= x, x < f["kept"](i), x < i))))
        pbk, idx = c["params_by_key"].t, c["param_indices_by_key"].t
        DK, DI = Dict(Str, Ref(TP)), Dict(Str, Int)
        clauses += [
            z3.ForAll([k], z3.And(z3.Select(DK.has(pbk), k) == f["seen"](i, k), z3.Select(DI.has(idx), k) == f["seen"](i, k))),
            z3.ForAll([k], z3.Implies(f["seen"](i, k), z3.And(z3.Select(DK.val(pbk), k) == obj(k), z3.Select(DI.val(idx), k) == f["slot"](i, k)))),
        ]
    return z3.And(*clauses)


def _wf_params(c):
    params = c["params"].t
    p = z3.Const("bv_p", I)
    return z3.ForAll([p], z3.Implies(z3.And(0 <= p, p < z3.Length(params)), z3.And(params[p] > 0, params[p] < z3.Int("next_ref0"))))


REG.contract(
    f"{MOD}:merge_repeated_kwargs", prop=P, types={"params": PARAMS}, result=PARAMS, entry=_entry,
    locals={"resolved_params": PARAMS, "params_by_key": Dict(Str, Ref(TP)), "param_indices_by_key": Dict(Str, Int), "replaced_param_indices": Set(Int)},
    requires=[_wf_params],
    modifies=[f"{TP}.key", f"{TP}.value"], raises={},         # in particular no IndexError, whatever is repeated
    loops={0: Loop(inv=[_inv], variant="len(params) - _i0")},
    ensures={"one_entry_per_key_in_first_occurrence_order_with_the_values_joined":
             lambda c: _inv(c, upto=z3.Length(c.old("params").t), res=c["result"].t, at_exit=True)},
)


# ------------------------------------------------------------------------------------------- replay on the real code
@REG.replay(f"{MOD}:merge_repeated_kwargs")
def _replay_mrk(model, ob):
    """the model's heap is abstract: drive the real function with small parameter lists (all key patterns over
    {None, a, b, c} up to length 5 around the failing shape) and compare with the specification computed directly"""
    import itertools
    from django_components.util.template_tag import TagParam, merge_repeated_kwargs

    def spec(ps):
        out, pos = [], {}
        for k, v in ps:
            if k is None:
                out.append((None, v))
            elif k not in pos:
                pos[k] = len(out)
                out.append((k, v))
            else:
                k0, v0 = out[pos[k]]
                out[pos[k]] = (k, str(v0) + " " + str(v))
        return out
    keys = [None, "a", "b", "c"]
    for n in range(1, 6):
        for combo in itertools.product(keys, repeat=n):
            ps = [(k, j + 1) for j, k in enumerate(combo)]
            objs = [TagParam(k, v) for k, v in ps]
            want = spec(ps)
            try:
                got = [(p.key, p.value) for p in merge_repeated_kwargs(objs)]
            except Exception as e:
                return {"confirmed": True, "function": "merge_repeated_kwargs", "inputs": {"params (key, value)": ps},
                        "expected": repr(want), "observed": f"{type(e).__name__}: {e}"}
            if got != want or [(o.key, o.value) for o in objs] != ps:
                return {"confirmed": True, "function": "merge_repeated_kwargs", "inputs": {"params (key, value)": ps},
                        "expected": repr(want), "observed": repr(got) + ("" if [(o.key, o.value) for o in objs] == ps else " and the caller's params were modified")}
    return {"confirmed": False}
