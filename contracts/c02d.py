"""C02 - resolve_params: top-level spreads and the order of the three steps every tag's arguments go through.

From the property ("`*` / `**` / `...` spreads ... follow Python semantics", "exactly the positional and keyword values its arguments
denote"): the list that enters aggregation is the concatenation, in the order of the attributes, of
    [ (key, value) ]                                 for an attribute without a spread: its own key (or none) and what its value denotes,
    [ (k1, v1), (k2, v2), ... ]                      for `...m` where m denotes a mapping: its items in the mapping's order,
    [ (none, x1), (none, x2), ... ]                  for `...s` where s denotes another iterable: its elements, positionally,
and a spread of anything else - or a spread onto a key - is refused.  Repeated keys are merged first and ONLY for html_attrs;
then prefixed keys are aggregated; the result is what aggregation returns (those two steps have their own contracts: c13b, c02c).
The values are passed on as they are (not copied, not converted).
TagParam objects are represented BY VALUE in this unit (key, value): the function only creates them and hands them on.
"""
import z3

import contracts.c02 as c02
import contracts.c02b as c02b
from pyvc import ops
from pyvc.contracts import REG, Bool, Int, Loop, Obj, Opt, Seq, Str, Tup
from pyvc.interp import ExcVal, PyRaise
from pyvc.types import Conc, TBool, TOpt, TStr, Val

P = "C02"
TT = "django_components.util.template_tag"
S, I, B = z3.StringSort(), z3.IntSort(), z3.BoolSort()
VALUE, V, CTX = c02.VALUE, c02.V, c02.CTX
ATTR, ATTRS = c02b.ATTR, c02b.ATTRS
OS = TOpt(TStr)
PARAMV = Tup(OS, VALUE, tag="TagParamByValue", fields=["key", "value"])
PARAMSV = Seq(PARAMV)
ITEM = Tup(TStr, VALUE, tag="MappingItem", fields=["k", "v"])
ITEMS = Seq(ITEM)


def den_attr(a, ctx):
    """what the attribute's value denotes in the context: param.value.resolve(context) (TagValueStruct.resolve, proved in c02)"""
    return ops.uf("tag_attr_value_denotes", ATTR.sort(), CTX.sort(), V)(a, ctx)


def is_mapping(v):
    return ops.uf("value_is_Mapping", V, B)(v)


def is_iterable(v):
    return ops.uf("value_is_Iterable", V, B)(v)


def items_of(v):
    """list(v.items()) of a mapping (keys of a mapping that is spread into keyword arguments are strings: A-KEYS)"""
    return ops.uf("mapping_items", V, ITEMS.sort())(v)


def elems_of(v):
    return c02.as_list(v)


def mk(key, value):
    return PARAMV.mk(key, value)


def _value_resolve(run, obj, args, kwargs, node):
    a = obj.obj[2]
    if run.choose(2, None) == 1:
        raise PyRaise(ExcVal("Any", [], site="param.value.resolve (user filters / variables)"))
    return Val(VALUE, den_attr(a.t, run.coerce(args[0], CTX).t), foreign=True)


REG.stub(("method", "conc:obj_kind:tagvalue_of", "resolve"), _value_resolve)
REG.stub(("method", "conc:obj_kind:tagvalue_of", "serialize"), lambda run, obj, args, kwargs, node: Val(TStr, c02b.text(obj.obj[2].t)))
REG.stub(("method", "PyValue", "items"), lambda run, obj, args, kwargs, node: Conc(("seqview", Val(ITEMS, items_of(obj.t)))))
REG.stub(("iter", "PyValue"), lambda run, v: Val(c02.VLIST, elems_of(v.t)))
REG.stub(("tostr", "PyValue"), lambda run, v: Val(TStr, ops.uf("str_of_value", V, S)(v.t)))


def _new_param(run, args, kwargs, node):
    """TagParam(key=..., value=...) by value"""
    from pyvc.types import NONE
    key = kwargs["key"]
    kt = OS.none() if key is NONE else run.coerce(key, OS).t
    return Val(PARAMV, mk(kt, run.coerce(kwargs["value"], VALUE).t))


# ---- the specification: contribution of one attribute, and the list produced by attrs[0..i)
def contrib(a, ctx):
    return ops.uf("rp_contribution", ATTR.sort(), CTX.sort(), PARAMSV.sort())(a, ctx)


def _flat():
    return z3.Function("rp_flat_upto", I, PARAMSV.sort())


def key_opt(a):
    return z3.If(c02b.has_key(a), OS.some(c02b.key_text(a)), OS.none())


def key_truthy(a):
    return z3.And(c02b.has_key(a), z3.Length(c02b.key_text(a)) > 0)


def _entry(run, fr):
    attrs, ctx = fr.vars["params"].t, fr.vars["context"].t
    flat = _flat()
    i, q = z3.FreshConst(I, "i"), z3.FreshConst(I, "q")
    a = z3.FreshConst(ATTR.sort(), "a")
    d = den_attr(a, ctx)
    co = contrib(a, ctx)
    for ax in (
        flat(0) == z3.Empty(PARAMSV.sort()),
        z3.ForAll([i], z3.Implies(z3.And(0 <= i, i < z3.Length(attrs)), flat(i + 1) == z3.Concat(flat(i), contrib(attrs[i], ctx))), patterns=[flat(i + 1)]),
        # definition of the contribution (element-wise)
        z3.ForAll([a], z3.Implies(z3.Not(c02b.spread(a)), co == z3.Unit(mk(key_opt(a), d))), patterns=[co]),
        z3.ForAll([a], z3.Implies(z3.And(c02b.spread(a), is_mapping(d)), z3.Length(co) == z3.Length(items_of(d))), patterns=[co]),
        z3.ForAll([a, q], z3.Implies(z3.And(c02b.spread(a), is_mapping(d), 0 <= q, q < z3.Length(items_of(d))),
                                     co[q] == mk(OS.some(ITEM.proj(items_of(d)[q], 0)), ITEM.proj(items_of(d)[q], 1))), patterns=[co[q]]),
        z3.ForAll([a], z3.Implies(z3.And(c02b.spread(a), z3.Not(is_mapping(d)), is_iterable(d)), z3.Length(co) == z3.Length(elems_of(d))), patterns=[co]),
        z3.ForAll([a, q], z3.Implies(z3.And(c02b.spread(a), z3.Not(is_mapping(d)), is_iterable(d), 0 <= q, q < z3.Length(elems_of(d))),
                                     co[q] == mk(OS.none(), elems_of(d)[q])), patterns=[co[q]]),
    ):
        run.pc.append(ax)


def _refused(a, ctx):
    d = den_attr(a, ctx)
    return z3.And(c02b.spread(a), z3.Or(key_truthy(a), z3.And(z3.Not(is_mapping(d)), z3.Not(is_iterable(d)))))


def _inv0(c):
    attrs, ctx = c.old("params").t, c.old("context").t
    i = c["_i0"].t
    j = z3.Const("bv_j", I)
    return z3.And(c["resolved_params"].t == _flat()(i), c["params"].t == attrs,
                  z3.ForAll([j], z3.Implies(z3.And(0 <= j, j < i), z3.Not(_refused(attrs[j], ctx)))))


def _cur(c):
    return c.old("params").t[c["_i0"].t]


def _inv_items(c):
    """inside `...mapping`: the entries of the first j items have been appended"""
    a, ctx = _cur(c), c.old("context").t
    co = contrib(a, ctx)
    j = c["_i1"].t
    return z3.And(c["resolved_params"].t == z3.Concat(_flat()(c["_i0"].t), z3.Extract(co, 0, j)),
                  c["_seq1"].t == items_of(den_attr(a, ctx)), c02b.spread(a), is_mapping(den_attr(a, ctx)), z3.Not(key_truthy(a)))


def _inv_elems(c):
    a, ctx = _cur(c), c.old("context").t
    co = contrib(a, ctx)
    j = c["_i2"].t
    d = den_attr(a, ctx)
    return z3.And(c["resolved_params"].t == z3.Concat(_flat()(c["_i0"].t), z3.Extract(co, 0, j)),
                  c["_seq2"].t == elems_of(d), c02b.spread(a), z3.Not(is_mapping(d)), is_iterable(d), z3.Not(key_truthy(a)))


def merged(p):
    return ops.uf("merge_repeated_kwargs_of", PARAMSV.sort(), PARAMSV.sort())(p)


def aggregated(p):
    return ops.uf("process_aggregate_kwargs_of", PARAMSV.sort(), PARAMSV.sort())(p)


def _merge(run, args, kwargs, node):
    n = run.ghost.get("merge_calls")
    run.ghost["merge_calls"] = Val(Int, (n.t if n is not None else z3.IntVal(0)) + 1)
    return Val(PARAMSV, merged(run.coerce(args[0], PARAMSV).t))


def _aggregate(run, args, kwargs, node):
    if run.choose(2, None) == 1:
        raise PyRaise(ExcVal("TemplateSyntaxError", [], site="process_aggregate_kwargs (key used both ways)"))
    return Val(PARAMSV, aggregated(run.coerce(args[0], PARAMSV).t))


def _some_refused(c):
    attrs, ctx = c.old("params").t, c.old("context").t
    j = z3.Const("bv_j", I)
    return z3.Exists([j], z3.And(0 <= j, j < z3.Length(attrs), _refused(attrs[j], ctx)))


def _post(c):
    attrs = c.old("params").t
    flat = _flat()(z3.Length(attrs))
    is_ha = c.old("tag").t == z3.StringVal("html_attrs")
    return c["result"].t == aggregated(z3.If(is_ha, merged(flat), flat))


REG.contract(
    f"{TT}:resolve_params", prop=P, types={"tag": Str, "params": ATTRS, "context": CTX}, result=PARAMSV, entry=_entry,
    calls={"TagParam": _new_param, "merge_repeated_kwargs": _merge, "process_aggregate_kwargs": _aggregate},
    locals={"resolved_params": PARAMSV},
    modifies=[f"{c02.STRUCT}.compiled"], raises={"ValueError": _some_refused, "TemplateSyntaxError": None, "Any": None},
    loops={0: Loop(inv=[_inv0], variant="len(params) - _i0"),
           1: Loop(inv=[_inv_items], variant="len(_seq1) - _i1"),
           2: Loop(inv=[_inv_elems], variant="len(_seq2) - _i2")},
    ensures={
        "spreads_flattened_in_order_then_merge_only_for_html_attrs_then_aggregation": _post,
        "accepted_only_without_a_refused_spread": lambda c: z3.Not(_some_refused(c)),
        "repeated_keys_merged_only_for_html_attrs": lambda c: (c.ghost["merge_calls"].t if "merge_calls" in c.ghost else z3.IntVal(0)) == z3.If(c.old("tag").t == z3.StringVal("html_attrs"), 1, 0),
    },
)


@REG.replay(f"{TT}:resolve_params")
def _replay_resolve_params(model, ob):
    """every attribute list of up to 3 attributes over {1, k=2, ...m (mapping), ...l (list), ...t (tuple), ...n (number), k=...m is a
    parse error and not used} through the real parse_tag + resolve_params, against the specification computed directly"""
    import itertools
    from django.conf import settings
    if not settings.configured:
        from tests.django_test_setup import setup_test_config
        setup_test_config({"autodiscover": False})
    from django.template import Context, Engine
    from django.template.base import Parser
    from django.template.exceptions import TemplateSyntaxError
    from django_components.util.tag_parser import parse_tag
    from django_components.util.template_tag import resolve_params
    eng = Engine.get_default()
    ctx = Context({"m": {"x": 10, "y": 11}, "m2": {"y": 12, "z": 13}, "l": [20, 21], "t": (30,), "n": 5, "e": [], "g": (c for c in "ab"), "s": "hi"})
    words = [("1", [(None, 1)]), ("k=2", [("k", 2)]), ("...m", [("x", 10), ("y", 11)]), ("...m2", [("y", 12), ("z", 13)]), ("...l", [(None, 20), (None, 21)]),
             ("...t", [(None, 30)]), ("...n", "ValueError"), ("...e", []), ("y=3", [("y", 3)]), ("...s", [(None, "h"), (None, "i")])]
    for tag in ("t", "html_attrs"):
        for n in range(0, 4):
            for combo in itertools.product(words, repeat=n):
                parser = Parser([], eng.template_libraries, eng.template_builtins)
                try:
                    _tag, attrs = parse_tag(tag + " " + " ".join(w for w, _e in combo), parser)
                except TemplateSyntaxError:
                    continue
                attrs = attrs[1:]
                flat, bad = [], False
                for _w, e in combo:
                    if e == "ValueError":
                        bad = True
                        break
                    flat.extend(e)
                if bad:
                    want = "ValueError"
                else:
                    if tag == "html_attrs":
                        out, pos = [], {}
                        for k, v in flat:
                            if k is not None and k in pos:
                                out[pos[k]] = (k, str(out[pos[k]][1]) + " " + str(v))
                            else:
                                if k is not None:
                                    pos[k] = len(out)
                                out.append((k, v))
                        flat = out
                    want = flat
                try:
                    got = [(p.key, p.value) for p in resolve_params(tag, attrs, ctx)]
                except ValueError:
                    got = "ValueError"
                except TemplateSyntaxError:
                    got = "TemplateSyntaxError"
                if got != want:
                    return {"confirmed": True, "function": "resolve_params", "inputs": {"tag": tag + " " + " ".join(w for w, _e in combo)},
                            "expected": repr(want)[:300], "observed": repr(got)[:300]}
    return {"confirmed": False}
