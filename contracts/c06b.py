"""C03 / C06 - the component's data layer and template binding exist exactly while the template renders.

_prepare_template(component, context, context_data, metadata) is the context manager inside which a component's template is
rendered: while its body runs the Context has exactly ONE more layer, holding the data returned by get_context_data(), and a
bound template; when the body ends - normally or with ANY exception - the Context, its template binding and the component's
metadata stack are as on entry, and the exception that escapes is the body's own.
_maybe_bind_template(context, template) binds only when nothing is bound and restores the binding.
"""
import z3

from contracts.stubs_django import CTX, LAYER, LAYERS
from pyvc import ops
from pyvc.contracts import REG, Any_, Bool, Obj, Opt, Ref, Seq, Str
from pyvc.interp import ExcVal, PyRaise
from pyvc.types import NONE, Conc, TAny, TBool, TObj, TOpt, TStr, Val

class _C06:
    """contracts.c06, resolved at use (c06 -> c05 -> c03 -> c06b is an import cycle)"""
    def __getattr__(self, name):
        import contracts.c06 as m
        return getattr(m, name)


c06 = _C06()
P = ("C03", "C06")
COMP = "django_components.component"
TPL = Obj("Template")
OTPL = TOpt(TPL)
I = z3.IntSort()
REG.classes[CTX]["template"] = OTPL              # Context.template: the Template the Context is bound to (None = unbound)


def _dicts(c, old=False):
    return z3.Select(c.field(CTX, "dicts", old), c.old("context").t)


def _bound(c, old=False):
    return z3.Select(c.field(CTX, "template", old), c.old("context").t)


# ---- django Context.bind_template(template): ASSUMED (django/template/context.py): binds, and unbinds (None) on exit
def _bind_template(run, obj, args, kwargs, node):
    t = run.coerce(args[0], TPL)
    run.implicit_raise(OTPL.is_none(run.load_field(obj.t, CTX, "template").t), "RuntimeError", node, "Context is already bound to a template")
    run.store_field(obj.t, CTX, "template", Val(OTPL, OTPL.some(t.t)))

    def enter():
        return NONE

    def exit_(exc):
        run.store_field(obj.t, CTX, "template", Val(OTPL, OTPL.none()))
        return False
    return Conc(("cm", enter, exit_))


REG.stub(("method", f"Ref_{CTX}", "bind_template"), _bind_template)


# ---- the with-body: template rendering (user code).  RELY: it leaves the Context with the layers it found (it may write
# into the top layer, and push / pop in a balanced way), does not rebind the template, and may raise anything.
def _body(run, fr):
    ctx = fr.vars["context"].t
    D = run.load_field(ctx, CTX, "dicts").t
    n = z3.Length(D)
    D2 = z3.FreshConst(LAYERS.sort(), "dicts_after_body")
    run.assume(z3.And(z3.Length(D2) == n, z3.Extract(D2, 0, n - 1) == z3.Extract(D, 0, n - 1)))
    run.store_field(ctx, CTX, "dicts", Val(LAYERS, D2))
    return c06._body_may_raise(run, fr)


def _mbt_yield(run, fr):
    ctx = fr.vars["context"].t
    run.oblige("yield#a_template_is_bound_while_the_body_runs", z3.Not(OTPL.is_none(run.load_field(ctx, CTX, "template").t)), kind="post")
    return _body(run, fr)


REG.contract(
    f"{COMP}:_maybe_bind_template", prop=P, types={"context": Ref(CTX), "template": TPL}, yield_hook=_mbt_yield,
    requires=[lambda c: c["context"].t > 0, lambda c: z3.Length(_dicts(c)) >= 1],
    modifies=[f"{CTX}.template", f"{CTX}.dicts"], raises={"Any": None},
    ensures={"binding_restored": lambda c: _bound(c) == _bound(c, True)},
    xensures={"Any": {"binding_restored_on_error": lambda c: _bound(c) == _bound(c, True), "the_original_exception_object_propagates": (lambda c: c06._same_exception(c))}},
)


# ---- _prepare_template
META = Obj("MetadataItem")
STACK = Seq(META)
REG.stub(("getattr", "MetadataItem", "render_id"), lambda run, obj, node: Val(TStr, ops.uf("metadata_render_id", META.sort(), z3.StringSort())(obj.t)))
REG.stub(("method", "RenderContext", "get"), lambda run, obj, args, kwargs, node: Val(TAny, TAny.fresh("render_context_value")))
REG.stub(("setattr", "Template", "_djc_is_component_nested"), lambda run, obj, v, node: None)   # a flag on the Template object (C10), not on the Context
REG.stub("django_components.util.django_monkeypatch:is_template_cls_patched", lambda run, args, kwargs, node: Val(TBool, ops.uf("template_cls_is_patched", TPL.sort(), z3.BoolSort())(run.coerce(args[0], TPL).t)))


def _get_template(run, args, kwargs, node):
    """component._get_template(context, component_id=...): user hooks (get_template / get_template_name) + template loading"""
    if run.choose(2, None) == 1:
        exc = ExcVal("Any", [], site="component._get_template (user code)")
        c06._exc_attrs(exc)
        run.ghost["body_exc"] = Conc(exc)
        raise PyRaise(exc)
    return Val(TPL, z3.FreshConst(TPL.sort(), "component_template"))


def _with_metadata_cm(run, args, kwargs, node):
    """component._with_metadata(item) at a call site: push on entry, pop on exit - what its own contract proves (C06)"""
    comp = run.call_frame.lookup("component")
    item = run.coerce(args[0], META)
    st = run.load_field(comp.t, "Component", "_metadata_stack")
    run.store_field(comp.t, "Component", "_metadata_stack", Val(STACK, z3.Concat(st.t, z3.Unit(item.t))))

    def enter():
        return NONE

    def exit_(exc):
        cur = run.load_field(comp.t, "Component", "_metadata_stack").t
        run.store_field(comp.t, "Component", "_metadata_stack", Val(STACK, z3.Extract(cur, 0, z3.Length(cur) - 1)))
        return False
    return Conc(("cm", enter, exit_))


def _maybe_bind_cm(run, args, kwargs, node):
    """_maybe_bind_template(context, template) at a call site: exactly its proved contract (bind if unbound, restore)"""
    ctx = run.coerce(args[0], Ref(CTX))
    t = run.coerce(args[1], TPL)
    before = run.load_field(ctx.t, CTX, "template")
    run.store_field(ctx.t, CTX, "template", Val(OTPL, z3.If(OTPL.is_none(before.t), OTPL.some(t.t), before.t)))

    def enter():
        return NONE

    def exit_(exc):
        run.store_field(ctx.t, CTX, "template", before)
        return False
    return Conc(("cm", enter, exit_))


def _pt_yield(run, fr):
    ctx = fr.vars["context"].t
    D = run.load_field(ctx, CTX, "dicts").t
    D0 = z3.Select(run.x.initial_field(run, CTX, "dicts"), ctx)
    data = fr.vars["context_data"].t
    run.oblige("yield#exactly_one_layer_with_the_component_data_on_top", D == z3.Concat(D0, z3.Unit(data)), kind="post",
               note="while the template renders, the Context is the caller's layers plus ONE layer holding get_context_data()'s result")
    run.oblige("yield#a_template_is_bound_while_the_body_runs", z3.Not(OTPL.is_none(run.load_field(ctx, CTX, "template").t)), kind="post")
    return _body(run, fr)


def _stack(c, old=False):
    return z3.Select(c.field("Component", "_metadata_stack", old), c.old("component").t)


def _restored(c):
    return z3.And(_dicts(c) == _dicts(c, True), _bound(c) == _bound(c, True), _stack(c) == _stack(c, True))


def _others(c):
    r = z3.Const("bv_r", I)
    return z3.ForAll([r], z3.Implies(r != c.old("context").t, z3.And(z3.Select(c.field(CTX, "dicts"), r) == z3.Select(c.field(CTX, "dicts", True), r),
                                                                   z3.Select(c.field(CTX, "template"), r) == z3.Select(c.field(CTX, "template", True), r))))


REG.contract(
    f"{COMP}:_prepare_template", prop=P, yield_hook=_pt_yield,
    types={"component": Ref("Component"), "context": Ref(CTX), "context_data": LAYER, "metadata": META},
    calls={"component._get_template": _get_template, "component._with_metadata": _with_metadata_cm, "_maybe_bind_template": _maybe_bind_cm},
    requires=[lambda c: c["context"].t > 0, lambda c: c["component"].t > 0, lambda c: z3.Length(_dicts(c)) >= 1],
    modifies=[f"{CTX}.dicts", f"{CTX}.template", "Component._metadata_stack"],
    raises={"Any": None, "RuntimeError": None},
    ensures={"context_binding_and_metadata_stack_restored": _restored, "no_other_context_touched": _others},
    xensures={"Any": {"context_binding_and_metadata_stack_restored_on_error": _restored, "no_other_context_touched": _others,
                      "the_original_exception_object_propagates": (lambda c: c06._same_exception(c))},
              "RuntimeError": {"context_binding_and_metadata_stack_restored_on_error": _restored}},
)


# ------------------------------------------------------------------------------------------- replay on the real code
@REG.replay(f"{COMP}:_prepare_template")
def _replay_prepare_template(model, ob):
    from types import SimpleNamespace
    from django.conf import settings
    if not settings.configured:
        from tests.django_test_setup import setup_test_config
        setup_test_config({"autodiscover": False})
    from django.template import Context, Template
    from django_components import Component
    from django_components.component import _prepare_template

    class ReplayPT(Component):
        template = "x"
    for data in ({}, {"k": 1}):
        for fail in (False, True):
            comp = ReplayPT()
            comp._get_template = lambda context, component_id: Template("x")
            ctx = Context({"a": 1})
            before = [dict(d) for d in ctx.dicts]
            stack0 = len(comp._metadata_stack)
            inside = None
            try:
                with _prepare_template(comp, ctx, data, SimpleNamespace(render_id="r1")):
                    inside = [dict(d) for d in ctx.dicts]
                    bound = ctx.template is not None
                    if fail:
                        raise KeyError("boom")
            except KeyError:
                pass
            after = [dict(d) for d in ctx.dicts]
            what = None
            if inside != before + [data]:
                what = f"while the body runs the Context has layers {inside[len(before) - 1:]} on top of the caller's (expected exactly one more layer: {data})"
            elif not bound:
                what = "no template bound while the body runs"
            elif after != before or ctx.template is not None or len(comp._metadata_stack) != stack0:
                what = f"after the body ({'raised' if fail else 'returned'}): layers {after}, template {ctx.template}, metadata stack depth {len(comp._metadata_stack)}"
            if what:
                return {"confirmed": True, "function": "_prepare_template", "inputs": {"context_data": data, "body": "raise KeyError" if fail else "pass"},
                        "expected": "caller's layers + one data layer while rendering; everything restored afterwards", "observed": what}
    return {"confirmed": False}


import contracts.c06  # noqa: E402,F401  (heap class Component, exception model)
