"""C20 - autodiscovery selects exactly the public modules, with the right import paths.

Path algebra (pathlib / glob) is an ASSUMED dependency (A-DJ): a path is an opaque value with `parts`; glob.iglob omits
hidden parts (its documented behaviour) and every result lies below the searched directory.
"""
import z3

from pyvc import ops
from pyvc.contracts import REG, Bool, Dict, Int, Loop, Obj, Opt, Seq, Str, Tup
from pyvc.interp import EngineError
from pyvc.types import NONE, Conc, TBool, TInt, TOpt, TSeq, TStr, Val, mk_str

P = "C20"
MOD = "django_components.util.loader"
PATH = Obj("Path")
PATHS = Seq(PATH)
PARTS = Seq(Str)
S, I, B = z3.StringSort(), z3.IntSort(), z3.BoolSort()
OS = TOpt(TStr)


def path_of_str(s):
    return ops.uf("path_of_str", S, PATH.sort())(s)


def str_of_path(p):
    return ops.uf("str_of_path", PATH.sort(), S)(p)


def parts_of(p):
    return ops.uf("path_parts", PATH.sort(), PARTS.sort())(p)


def rel_to(p, d):
    return ops.uf("path_relative_to", PATH.sort(), PATH.sort(), PATH.sort())(p, d)


def with_suffix_empty(p):
    return ops.uf("path_without_last_suffix", PATH.sort(), PATH.sort())(p)


def path_join(p, s):
    return ops.uf("path_join", PATH.sort(), S, PATH.sort())(p, s)


def glob_results(pattern):
    return ops.uf("glob_iglob_recursive", S, PATHS.sort())(pattern)


def _to_path(run, v):
    if isinstance(v, Val) and v.ty == PATH:
        return v
    return Val(PATH, path_of_str(run.coerce(v, TStr).t))


for _n in ("pathlib.Path", "pathlib.PurePosixPath", "pathlib.PureWindowsPath"):
    REG.stub(_n, lambda run, args, kwargs, node: _to_path(run, args[0]))
REG.stub(("value", "os.name"), mk_str("posix"))      # assumption: POSIX (the PureWindowsPath branch is not analysed)
REG.stub(("binop", "Div", "Path"), lambda run, a, b, node: Val(PATH, path_join(a.t, run.coerce(b, TStr).t)))
REG.stub(("tostr", "Path"), lambda run, v: Val(TStr, str_of_path(v.t)))
REG.stub(("method", "Path", "relative_to"), lambda run, obj, args, kwargs, node: Val(PATH, rel_to(obj.t, _to_path(run, args[0]).t)))
REG.stub(("method", "Path", "with_suffix"), lambda run, obj, args, kwargs, node: Val(PATH, with_suffix_empty(obj.t)))
REG.stub(("getattr", "Path", "parts"), lambda run, obj, node: Val(PARTS, parts_of(obj.t)))


def _last_part(p):
    ps = parts_of(p)
    return z3.If(z3.Length(ps) > 0, ps[z3.Length(ps) - 1], z3.StringVal(""))


def _stem_of(name):
    """pathlib's definition: i = name.rfind('.');  name[:i] if 0 < i < len(name) - 1 else name"""
    i = z3.LastIndexOf(name, z3.StringVal("."))
    return z3.If(z3.And(0 < i, i < z3.Length(name) - 1), z3.SubString(name, 0, i), name)


def _suffix_of(name):
    i = z3.LastIndexOf(name, z3.StringVal("."))
    return z3.If(z3.And(0 < i, i < z3.Length(name) - 1), z3.SubString(name, i, z3.Length(name) - i), z3.StringVal(""))


REG.stub(("getattr", "Path", "name"), lambda run, obj, node: Val(TStr, _last_part(obj.t)))
REG.stub(("getattr", "Path", "stem"), lambda run, obj, node: Val(TStr, _stem_of(_last_part(obj.t))))
REG.stub(("getattr", "Path", "suffix"), lambda run, obj, node: Val(TStr, _suffix_of(_last_part(obj.t))))


def _iglob(run, args, kwargs, node):
    """glob.iglob(pattern, recursive=True): the matching paths (as Path-able strings; modelled directly as paths)."""
    pat = run.coerce(args[0], TStr).t
    G = glob_results(pat)
    return Val(TSeq(TStr), ops.uf("glob_strings", S, z3.SeqSort(S))(pat))


def glob_paths(d, glob):
    """the paths visited by `for path_str in glob.iglob(str(Path(d) / glob), recursive=True): Path(path_str)`"""
    return ops.uf("glob_strings", S, z3.SeqSort(S))(str_of_path(path_join(d, glob)))


REG.stub("glob.iglob", _iglob)
# glob.escape(s): in this model a pattern `<directory>/<glob>` is identified with the directory it is meant to search (the glob
# stub's assumption); that the directory part really is literal is the syntactic obligation syn#searched_directory_is_taken_literally
REG.stub("glob.escape", lambda run, args, kwargs, node: run.coerce(args[0], TStr))
# pathlib's own glob: NOT the same relation as glob.iglob (it does not omit hidden entries) - nothing is assumed about it
REG.stub(("method", "Path", "glob"), lambda run, obj, args, kwargs, node: Val(PATHS, ops.uf("pathlib_glob", PATH.sort(), S, PATHS.sort())(obj.t, run.coerce(args[0], TStr).t)))
REG.stub(("method", "Path", "rglob"), lambda run, obj, args, kwargs, node: Val(PATHS, ops.uf("pathlib_rglob", PATH.sort(), S, PATHS.sort())(obj.t, run.coerce(args[0], TStr).t)))


def hidden(parts):
    k = z3.Const("bv_h", I)
    return z3.Exists([k], z3.And(0 <= k, k < z3.Length(parts), z3.PrefixOf(z3.StringVal("."), parts[k])))


def keep(parts):
    """From the property: no part of the relative path starts with `_` (except a FILE named __init__.py)."""
    k = z3.Const("bv_k", I)
    n = z3.Length(parts)
    last = parts[n - 1]
    init = z3.Extract(parts, 0, n - 1)      # the directory parts (all but the file name)
    return z3.And(
        z3.Not(z3.Exists([k], z3.And(0 <= k, k < z3.Length(init), z3.PrefixOf(z3.StringVal("_"), init[k])))),
        z3.Or(z3.Not(z3.PrefixOf(z3.StringVal("_"), last)), last == z3.StringVal("__init__.py")))


# ================================================================================================ _search_dirs
# From the property: "return exactly the FILES with the requested suffix whose path relative to the component directory has no part
# starting with `_` (except a file named __init__.py) and no hidden part, EACH ONCE".  Stated over the result list as a set with
# multiplicities (an earlier version defined the result as the concatenation of the per-directory selections - the code's own
# shape - and thereby accepted directories among the results and the same file twice for overlapping directories).
def is_file(p):
    return ops.uf("path_is_file", PATH.sort(), B)(p)


REG.stub(("method", "Path", "is_file"), lambda run, obj, args, kwargs, node: Val(TBool, is_file(obj.t)))


def gpath(d, glob, i):
    return path_of_str(glob_paths(d, glob)[i])


def public_file(p, d):
    """DEFINED as  keep(parts of p relative to d) and p is a file.  The bookkeeping invariants carry it as an atom; the defining
    equation is instantiated for each (path, directory) pair the code examines (at `path.relative_to(directory)`), which is where
    the code's own tests have to be related to it."""
    return ops.uf("c20_public_file_of", PATH.sort(), PATH.sort(), B)(p, d)


def public_file_def(p, d):
    return z3.And(keep(parts_of(rel_to(p, d))), is_file(p))


def _relative_to(run, obj, args, kwargs, node):
    d = _to_path(run, args[0])
    run.assume(public_file(obj.t, d.t) == public_file_def(obj.t, d.t))        # definitional instance
    return Val(PATH, rel_to(obj.t, d.t))


REG.stub(("method", "Path", "relative_to"), _relative_to)


def ok(d, glob, i):
    """the i-th glob result of directory d is a public file of d"""
    return public_file(gpath(d, glob, i), d)


def _wj():
    return z3.Function("c20_first_public_occurrence_dir", PATH.sort(), I)


def _wi():
    return z3.Function("c20_first_public_occurrence_idx", PATH.sort(), I)


def _lex_le(j1, i1, j2, i2):
    return z3.Or(j1 < j2, z3.And(j1 == j2, i1 <= i2))


def _sd_entry(run, fr):
    dirs, glob = fr.vars["dirs"].t, fr.vars["search_glob"].t
    d = z3.FreshConst(PATH.sort(), "d")
    i, j = z3.FreshConst(I, "i"), z3.FreshConst(I, "j")
    parts = parts_of(rel_to(gpath(d, glob, i), d))
    wj, wi = _wj(), _wi()
    p = gpath(dirs[j], glob, i)
    in_range = lambda jj, ii: z3.And(0 <= jj, jj < z3.Length(dirs), 0 <= ii, ii < z3.Length(glob_paths(dirs[jj], glob)))
    for ax in (
        # A-DJ (glob): every result lies below the searched directory (>= 1 relative part) and has no hidden part
        z3.ForAll([d, i], z3.Implies(z3.And(0 <= i, i < z3.Length(glob_paths(d, glob))), z3.And(z3.Length(parts) >= 1, z3.Not(hidden(parts))))),
        # A-DJ (pathlib): Path(str(p)) == p
        z3.ForAll([d], path_of_str(str_of_path(d)) == d, patterns=[str_of_path(d)]),
        # definitional: (wj p, wi p) is the FIRST place (directory index, result index) at which the path p occurs as a public
        # file - it exists whenever p occurs as one at all (least element of a non-empty set of pairs; conservative)
        z3.ForAll([j, i], z3.Implies(z3.And(in_range(j, i), ok(dirs[j], glob, i)),
                                     z3.And(in_range(wj(p), wi(p)), gpath(dirs[wj(p)], glob, wi(p)) == p, ok(dirs[wj(p)], glob, wi(p)),
                                            _lex_le(wj(p), wi(p), j, i))), patterns=[gpath(dirs[j], glob, i)]),
    ):
        run.pc.append(ax)


def _in(L, p):
    return z3.Contains(L, z3.Unit(p))


def _sd_state(c, m, j, i):
    """m holds, each once, exactly the public files among the results of dirs[0..j) and the first i results of dirs[j]"""
    dirs, glob = c.old("dirs").t, c.old("search_glob").t
    wj, wi = _wj(), _wi()
    a, b, j2, i2 = z3.Const("bv_a", I), z3.Const("bv_b", I), z3.Const("bv_j2", I), z3.Const("bv_i2", I)
    before = lambda jj, ii: z3.And(0 <= jj, 0 <= ii, ii < z3.Length(glob_paths(dirs[jj], glob)), z3.Or(jj < j, z3.And(jj == j, ii < i)), jj < z3.Length(dirs))
    return z3.And(
        # each once
        z3.ForAll([a, b], z3.Implies(z3.And(0 <= a, a < b, b < z3.Length(m)), m[a] != m[b])),
        # only public files: every element occurs as a public file of a directory already searched (witness: its first such place)
        z3.ForAll([a], z3.Implies(z3.And(0 <= a, a < z3.Length(m)),
                                  z3.And(before(wj(m[a]), wi(m[a])), m[a] == gpath(dirs[wj(m[a])], glob, wi(m[a])), ok(dirs[wj(m[a])], glob, wi(m[a]))))),
        # all of them
        z3.ForAll([j2, i2], z3.Implies(z3.And(before(j2, i2), ok(dirs[j2], glob, i2)), _in(m, gpath(dirs[j2], glob, i2)))))


def _outer_inv(c):
    return z3.And(c["dirs"].t == c.old("dirs").t, _sd_state(c, c["matched_files"].t, c["_i0"].t, z3.IntVal(0)))


def _inner_inv(c):
    dirs = c.old("dirs").t
    return z3.And(c["dirs"].t == dirs, _to_path_term(c["directory"]) == dirs[c["_i0"].t], c["_seq1"].t == glob_paths(dirs[c["_i0"].t], c.old("search_glob").t),
                  _sd_state(c, c["matched_files"].t, c["_i0"].t, c["_i1"].t))


def _to_path_term(v):
    return v.t if v.ty == PATH else path_of_str(v.t)


REG.contract(
    f"{MOD}:_search_dirs", prop=P, types={"dirs": PATHS, "search_glob": Str}, result=PATHS, entry=_sd_entry,
    locals={"matched_files": PATHS, "rel_dir_parts": PARTS},
    modifies=[], raises={},
    loops={0: Loop(inv=[_outer_inv], variant="len(dirs) - _i0"),
           1: Loop(inv=[_inner_inv], variant="len(_seq1) - _i1")},
    ensures={"exactly_the_public_files_of_the_directories_each_once": lambda c: _sd_state(c, c["result"].t, z3.Length(c.old("dirs").t), z3.IntVal(0))},
)


def _syn_glob_dir_escaped():
    """The glob stub's assumption - the results of iglob(<directory>/<glob>) are the paths BELOW that directory - holds for every
    directory name only if the directory part of the pattern is made literal with glob.escape (a directory named `comp[1]` or
    `x*y` is otherwise read as a pattern and matches nothing, or other directories).  Syntactic obligation on _search_dirs:
    the directory enters the iglob pattern through glob.escape."""
    import ast
    from pyvc.repo import load_module
    fn = load_module(MOD).funcs["_search_dirs"].node
    calls = [n for n in ast.walk(fn) if isinstance(n, ast.Call) and ast.unparse(n.func) in ("glob.iglob", "glob.glob", "iglob")]
    if not calls:
        return False, "no glob.iglob call found in _search_dirs (the function was restructured: re-read it)"
    bad = [ast.unparse(c.args[0]) for c in calls if "glob.escape(" not in ast.unparse(c.args[0]) or "directory" not in ast.unparse(c.args[0])]
    return (not bad), (f"pattern built without glob.escape of the directory: {bad[0]}" if bad else f"{len(calls)} iglob call(s), directory escaped")


REG.syntactic_check("syn#searched_directory_is_taken_literally", P, _syn_glob_dir_escaped,
                    note="backs assumption A-DJ(glob) for directory names with glob meta-characters")


def _lemma_kept_has_no_hidden_part():
    """sel only keeps glob results, and glob results have no hidden part (stub axiom): stated once for an arbitrary result."""
    parts = z3.Const("parts", PARTS.sort())
    return [z3.Not(hidden(parts)), keep(parts)], z3.And(z3.Not(hidden(parts)), keep(parts))


# ================================================================================================ _filepath_to_python_module
def _module_of(f, root, pkg):
    parts = parts_of(with_suffix_empty(rel_to(f, root)))
    name = ops.str_join(z3.StringVal("."), parts)
    full = z3.If(z3.And(z3.Not(OS.is_none(pkg)), z3.Length(OS.get(pkg)) > 0), z3.Concat(OS.get(pkg), z3.StringVal("."), name), name)
    return z3.If(z3.SuffixOf(z3.StringVal(".__init__"), full), z3.SubString(full, 0, z3.Length(full) - 9), full)


REG.contract(
    f"{MOD}:_filepath_to_python_module", prop=P, types={"file_path": PATH, "root_fs_path": PATH, "root_module_path": OS}, result=Str,
    modifies=[], raises={},
    ensures={"dotted_path_of_relative_parts": lambda c: c["result"].t == _module_of(c["file_path"].t, c["root_fs_path"].t, c["root_module_path"].t)},
)

ASSUMES = ["A-PY", "A-INST", "A-DJ"]
NOT_COVERED = [
    "get_component_files / get_component_dirs / autodiscover loops over settings and apps are not under contract (the `..` filter, each-once across overlapping directories); they are covered only by the BOUNDED stand-in bounded#get_component_files_returns_exactly_the_public_modules (620 trees x 2 suffixes, sampled: every 53rd subset pattern of 15 entries)",
    "pathlib / glob are assumed (opaque path values; glob.iglob omits hidden parts and returns paths below the directory); the import system is trusted",
    "os.name == 'nt' branch (PureWindowsPath) is not analysed",
]


# ------------------------------------------------------------------------------------------- replay on the real code
@REG.replay(f"{MOD}:_search_dirs")
def _replay_search_dirs(model, ob):
    """a real directory tree with private (_x), hidden (.x), __init__.py and nested entries at every level; the oracle is the
    property: files with the suffix whose relative path has no part starting with `_` (except a FILE __init__.py) and no
    hidden part, each once"""
    import os
    import shutil
    import tempfile
    from pathlib import Path
    from django_components.util.loader import _search_dirs
    root = Path(tempfile.mkdtemp(prefix="djc-verif-c20-", dir=os.environ.get("TMPDIR")))
    try:
        rels = ["a.py", "pkg/b.py", "pkg/__init__.py", "pkg/sub/c.py", "_priv/d.py", "pkg/_priv/e.py", "pkg/_f.py", "_g.py",
                ".hid/h.py", "pkg/.hid/i.py", "pkg/.j.py", ".k.py", "pkg/sub/.venv/l.py", "pkg/sub/__init__.py", "x.y/m.py", "pkg/n.txt",
                "pkg/s.js", "pkg/__init__.js", "pkg/_t.js", "pkg/__init__.txt", "_priv/u.js", "pkg/__init__", "pkg/__init__.py.js", "pkg/v.py.js"]
        for d in ("d1", "d2"):
            for rel in rels:
                p = root / d / rel
                p.parent.mkdir(parents=True, exist_ok=True)
                p.write_text("")
        dirs = [root / "d1", root / "d2"]
        def public(rel):
            parts = Path(rel).parts
            if any(x.startswith(".") for x in parts):
                return False
            if any(x.startswith("_") for x in parts[:-1]):
                return False
            return not parts[-1].startswith("_") or parts[-1] == "__init__.py"
        for suffix in (".py", ".js", ".txt", ""):
            search_glob = f"**/*{suffix}" if suffix else "**/*"
            got = [str(Path(p).relative_to(root)) for p in _search_dirs(dirs, search_glob)]
            want = sorted(f"{d}/{rel}" for d in ("d1", "d2") for rel in rels if rel.endswith(suffix) and public(rel))
            if sorted(got) != want or len(got) != len(set(got)):
                extra, missing = sorted(set(got) - set(want)), sorted(set(want) - set(got))
                return {"confirmed": True, "function": "_search_dirs", "inputs": {"tree (per directory)": rels, "search_glob": search_glob},
                        "expected": f"{len(want)} public files", "observed": f"extra: {extra[:6]} missing: {missing[:6]} duplicates: {len(got) - len(set(got))}"}
        # directories nested in one another (directly, and below an underscore directory): public relative to SOME directory, each once
        nested = [root / "d1", root / "d1" / "pkg", root / "d1" / "_priv"]
        got = [str(Path(p).relative_to(root)) for p in _search_dirs(nested, "**/*.py")]
        want = sorted({f"d1/{rel}" for rel in rels if rel.endswith(".py") and (public(rel) or any(rel.startswith(n + "/") and public(rel[len(n) + 1:]) for n in ("pkg", "_priv")))})
        if sorted(got) != want:
            extra, missing = sorted(set(got) - set(want)), sorted(set(want) - set(got))
            return {"confirmed": True, "function": "_search_dirs", "inputs": {"tree": rels, "dirs": ["d1", "d1/pkg", "d1/_priv"], "search_glob": "**/*.py"},
                    "expected": f"{len(want)} public files, each once", "observed": f"extra: {extra[:6]} missing: {missing[:6]} duplicates: {len(got) - len(set(got))}"}
    finally:
        shutil.rmtree(root, ignore_errors=True)
    return {"confirmed": False}


@REG.replay(f"{MOD}:_filepath_to_python_module")
def _replay_module_path(model, ob):
    from pathlib import Path
    from django_components.util.loader import _filepath_to_python_module
    cases = [("/r/app/components/a.py", "/r/app", "app", "app.components.a"), ("/r/app/components/__init__.py", "/r/app", "app", "app.components"),
             ("/r/components/x/y.py", "/r", None, "components.x.y"), ("/r/components/pkg/__init__.py", "/r", None, "components.pkg"),
             ("/r/components/my_init__.py", "/r", "", "components.my_init__"), ("/r/c/a.b/m.py", "/r", None, "c.a.b.m")]
    for f, root, pkg, want in cases:
        got = _filepath_to_python_module(Path(f), Path(root), pkg)
        if got != want:
            return {"confirmed": True, "function": "_filepath_to_python_module", "inputs": {"file_path": f, "root_fs_path": root, "root_module_path": pkg},
                    "expected": want, "observed": got}
    return {"confirmed": False}


def _bounded_discovery(tier, repo):
    from harness.bounded_discovery import run
    return run(repo)


REG.bounded_check("bounded#get_component_files_returns_exactly_the_public_modules", P, _bounded_discovery,
                  note="get_component_dirs / get_component_files / the app-dirs loop are not under contract: a real project tree (a COMPONENTS.dirs directory and an installed app's components directory) is populated with 620 subset patterns of 15 entries (nested packages, _ and . prefixed files and directories at every level, __init__.py, __init__.js, non-.py files, a directory name with a dot) and get_component_files('.py') / get_component_files('.js') are compared with the property")
